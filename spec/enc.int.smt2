; enc — the LZ4 block format as the encoder sees it (lz4_Block_format.md, "Compressed block
; format"): what the bytes of one sequence, and of the closing literals-only sequence, must be.
; Used by the contracts of the block compressors (C01). D is the byte memory that holds the
; output and d the address of its first byte, S / s the same for the source; positions are
; offsets from d (resp. s), element addresses are idx(d, j). Every quantified clause ranges
; over the position j itself, so that its trigger is the plain element term D[idx(d, j)].
;
; A length field v >= 0 that did not fit its token nibble (v = length - 15), at position p:
; v div 255 bytes of 255, then one byte v mod 255 (< 255).
(define-fun enc.ext ((D (Array Int Int)) (d Int) (p Int) (v Int)) Bool
  (and (forall ((j Int)) (! (=> (and (<= p j) (< j (+ p (div v 255)))) (= (select D (idx d j)) 255)) :pattern ((select D (idx d j)))))
       (= (select D (idx d (+ p (div v 255)))) (mod v 255))))
; the byte at position p (lets a contract read one byte of the memory of old(s) at a current position)
(define-fun enc.byte ((D (Array Int Int)) (d Int) (p Int)) Int (select D (idx d p)))
; its size in bytes; 0 when the length fits the nibble (len < 15)
(define-fun enc.extLen ((len Int)) Int (ite (>= len 15) (+ (div (- len 15) 255) 1) 0))
(define-fun enc.nib ((len Int)) Int (ite (< len 15) len 15))
; the n bytes at position p of the output are the n bytes at position a of the source
(define-fun enc.lits ((D (Array Int Int)) (d Int) (p Int) (S (Array Int Int)) (s Int) (a Int) (n Int)) Bool
  (forall ((j Int)) (! (=> (and (<= p j) (< j (+ p n))) (= (select D (idx d j)) (select S (idx s (+ a (- j p)))))) :pattern ((select D (idx d j))))))
; One sequence at position p: token, literal length, L literals (the source bytes at a), offset,
; match length. M4 is the match length minus 4 (minmatch), off the offset, p2 the position
; after the sequence, and lp the position of the literals (an argument of its own, so that no
; bound of a quantified clause contains a case distinction).
(define-fun enc.seq ((D (Array Int Int)) (d Int) (p Int) (S (Array Int Int)) (s Int) (a Int) (L Int) (M4 Int) (off Int) (lp Int) (p2 Int)) Bool
  (and (>= L 0) (>= M4 0) (< 0 off) (< off 65536) (= lp (+ p 1 (enc.extLen L)))
       (= (select D (idx d p)) (+ (* 16 (enc.nib L)) (enc.nib M4)))
       (=> (>= L 15) (enc.ext D d (+ p 1) (- L 15)))
       (enc.lits D d lp S s a L)
       (= (select D (idx d (+ lp L))) (mod off 256))
       (= (select D (idx d (+ lp L 1))) (div off 256))
       (=> (>= M4 15) (enc.ext D d (+ lp L 2) (- M4 15)))
       (= p2 (+ lp L 2 (enc.extLen M4)))))
; The last sequence: literals only, the match nibble is 0.
(define-fun enc.last ((D (Array Int Int)) (d Int) (p Int) (S (Array Int Int)) (s Int) (a Int) (L Int) (lp Int) (p2 Int)) Bool
  (and (>= L 0) (= lp (+ p 1 (enc.extLen L)))
       (= (select D (idx d p)) (* 16 (enc.nib L)))
       (=> (>= L 15) (enc.ext D d (+ p 1) (- L 15)))
       (enc.lits D d lp S s a L)
       (= p2 (+ lp L))))
; A match of length M4 + 4 at position pos of the source with offset off copies bytes that the
; decoder has already produced: it lies inside the source read so far, and the source repeats there.
(define-fun enc.matchOK ((S (Array Int Int)) (s Int) (pos Int) (M4 Int) (off Int)) Bool
  (and (<= off pos)
       (forall ((q Int)) (! (=> (and (<= pos q) (< q (+ pos M4 4))) (= (select S (idx s q)) (select S (idx s (- q off))))) :pattern ((select S (idx s q)))))))

; enc.at(m): a marker that holds for every m; stating it in a contract puts the term in front of
; the solver and so selects the instance m of a lemma whose trigger mentions it
(declare-fun enc.at (Int) Bool)
(assert (forall ((m Int)) (! (enc.at m) :pattern ((enc.at m)))))

; ---- lemmas (proved by the engine, pseudo function lemmas.enc) ----
; a sequence depends only on its own bytes p .. p2-1 of the output
(lemma enc.seq_frame
  :props (C01)
  :vars ((D1 (Array Int Int)) (D2 (Array Int Int)) (d Int) (p Int) (S (Array Int Int)) (s Int) (a Int) (L Int) (M4 Int) (off Int) (lp Int) (p2 Int))
  :statement (=> (and (enc.seq D1 d p S s a L M4 off lp p2)
                      (forall ((j Int)) (! (=> (and (<= p j) (< j p2)) (= (select D2 (idx d j)) (select D1 (idx d j)))) :pattern ((select D2 (idx d j))))))
                 (enc.seq D2 d p S s a L M4 off lp p2))
  :pattern ((enc.seq D1 d p S s a L M4 off lp p2) (enc.seq D2 d p S s a L M4 off lp p2)))
; a match repeats with every multiple of its offset that stays inside the bytes already covered
; (the decoders copy overlapping matches in chunks that are multiples of the offset)
(define-fun enc.periodAt ((S (Array Int Int)) (s Int) (pos Int) (M4 Int) (off Int) (m Int)) Bool
  (forall ((x Int)) (! (=> (and (<= pos x) (< x (+ pos M4 4)) (<= (- pos off) (- x (* m off))))
                           (= (select S (idx s x)) (select S (idx s (- x (* m off))))))
                       :pattern ((select S (idx s x))))))
(lemma enc.period
  :props (C04 C01)
  :vars ((S (Array Int Int)) (s Int) (pos Int) (M4 Int) (off Int) (m Int))
  :induction m
  :statement (=> (and (enc.matchOK S s pos M4 off) (> off 0)) (enc.periodAt S s pos M4 off m))
  :pattern ((enc.matchOK S s pos M4 off) (enc.at m)))
; the predicates depend on the source only through the bytes they mention: the same bytes held
; elsewhere (another memory, a ghost sequence) satisfy them as well
(lemma enc.seq_source
  :props (C01)
  :vars ((D (Array Int Int)) (d Int) (p Int) (S1 (Array Int Int)) (s1 Int) (S2 (Array Int Int)) (s2 Int) (a Int) (L Int) (M4 Int) (off Int) (lp Int) (p2 Int))
  :statement (=> (and (enc.seq D d p S1 s1 a L M4 off lp p2)
                      (forall ((j Int)) (! (=> (and (<= a j) (< j (+ a L))) (= (select S2 (idx s2 j)) (select S1 (idx s1 j)))) :pattern ((select S2 (idx s2 j))))))
                 (enc.seq D d p S2 s2 a L M4 off lp p2))
  :pattern ((enc.seq D d p S1 s1 a L M4 off lp p2) (enc.seq D d p S2 s2 a L M4 off lp p2)))
(lemma enc.last_source
  :props (C01)
  :vars ((D (Array Int Int)) (d Int) (p Int) (S1 (Array Int Int)) (s1 Int) (S2 (Array Int Int)) (s2 Int) (a Int) (L Int) (lp Int) (p2 Int))
  :statement (=> (and (enc.last D d p S1 s1 a L lp p2)
                      (forall ((j Int)) (! (=> (and (<= a j) (< j (+ a L))) (= (select S2 (idx s2 j)) (select S1 (idx s1 j)))) :pattern ((select S2 (idx s2 j))))))
                 (enc.last D d p S2 s2 a L lp p2))
  :pattern ((enc.last D d p S1 s1 a L lp p2) (enc.last D d p S2 s2 a L lp p2)))
(lemma enc.match_source
  :props (C01)
  :vars ((S1 (Array Int Int)) (s1 Int) (S2 (Array Int Int)) (s2 Int) (pos Int) (M4 Int) (off Int))
  :statement (=> (and (enc.matchOK S1 s1 pos M4 off) (> off 0)
                      (forall ((j Int)) (! (=> (and (<= (- pos off) j) (< j (+ pos M4 4))) (= (select S2 (idx s2 j)) (select S1 (idx s1 j)))) :pattern ((select S2 (idx s2 j))))))
                 (enc.matchOK S2 s2 pos M4 off))
  :pattern ((enc.matchOK S1 s1 pos M4 off) (enc.matchOK S2 s2 pos M4 off)))
