; blk — helper spec functions for internal/lz4block (bit-vector reading)
; used(m, b, h): bit (h mod 32) of the 32-bit word m[b + h div 32]  (the Compressor.inUse bitmap)
(define-fun blk.used ((m (Array (_ BitVec 64) (_ BitVec 32))) (b (_ BitVec 64)) (h (_ BitVec 64))) Bool
  (= ((_ extract 0 0) (bvlshr (select m (bvadd b (bvlshr h #x0000000000000005))) ((_ extract 31 0) (bvand h #x000000000000001f)))) #b1))
; cand(t, si): the candidate position Compressor.get derives from a 16-bit table entry t at position si
(define-fun blk.cand ((t (_ BitVec 64)) (si (_ BitVec 64))) (_ BitVec 64)
  (let ((i (bvadd t (bvand si #xffffffffffff0000))))
    (ite (bvsge i si) (bvsub i #x0000000000010000) i)))
