; strm — byte-stream helpers for the frame-level contracts (int theory)
(define-fun strm.le16 ((d (Array Int Int)) (p Int)) Int (+ (select d p) (* 256 (select d (+ p 1)))))
(define-fun strm.le32 ((d (Array Int Int)) (p Int)) Int
  (+ (select d p) (* 256 (select d (+ p 1))) (* 65536 (select d (+ p 2))) (* 16777216 (select d (+ p 3)))))
(define-fun strm.le64 ((d (Array Int Int)) (p Int)) Int
  (+ (strm.le32 d p) (* 4294967296 (strm.le32 d (+ p 4)))))
; the error io.ReadFull reports when fewer than the wanted bytes are available:
; zero bytes left -> the reader's terminal error; some bytes -> io.ErrUnexpectedEOF when that error is io.EOF
(define-fun strm.shortRead ((avail Int) (terr Int)) Int (ite (= avail 0) terr (ite (= terr 901) 902 terr)))
; bit k of a flag word
(define-fun strm.bit ((x Int) (k Int)) Bool (= (mod (div x (ite (= k 0) 1 (ite (= k 1) 2 (ite (= k 2) 4 (ite (= k 3) 8 (ite (= k 4) 16 (ite (= k 5) 32 (ite (= k 6) 64 (ite (= k 7) 128 32768))))))))) 2) 1))
; XXH32 (seed 0) of n bytes of array d starting at p: uninterpreted at the frame level.
; internal/xxh32 is verified against the bit-vector definition (C13); the frame-level
; contracts only need that the library and the specification mean the same function.
(declare-fun xxh.sum ((Array Int Int) Int Int) Int)
; ---- frame header rules (LZ4 frame format v1.6), d = stream bytes, p = position of FLG ----
(define-fun hdr.flags ((d (Array Int Int)) (p Int)) Int (strm.le16 d p))
(define-fun hdr.hasSize ((d (Array Int Int)) (p Int)) Bool (= (mod (div (select d p) 8) 2) 1))
; number of descriptor bytes covered by the header checksum (FLG, BD, optional 8-byte content size)
(define-fun hdr.len ((d (Array Int Int)) (p Int)) Int (ite (hdr.hasSize d p) 10 2))
(define-fun hdr.cks ((d (Array Int Int)) (p Int)) Int (mod (div (xxh.sum d p (hdr.len d p)) 256) 256))
(define-fun hdr.cksOK ((d (Array Int Int)) (p Int)) Bool (= (select d (+ p (hdr.len d p))) (hdr.cks d p)))
; block maximum size code: BD bits 6-4
(define-fun hdr.idx ((d (Array Int Int)) (p Int)) Int (mod (div (select d (+ p 1)) 16) 8))
(define-fun hdr.idxOK ((d (Array Int Int)) (p Int)) Bool (and (<= 4 (hdr.idx d p)) (<= (hdr.idx d p) 7)))
; XXH32 depends only on the bytes it covers
(assert (forall ((a (Array Int Int)) (p Int) (b (Array Int Int)) (q Int) (n Int))
  (! (=> (forall ((i Int)) (=> (and (<= 0 i) (< i n)) (= (select a (+ p i)) (select b (+ q i)))))
         (= (xxh.sum a p n) (xxh.sum b q n)))
     :pattern ((xxh.sum a p n) (xxh.sum b q n)))))
; the error reported for a read that must not hit the end of the source (inside a frame)
(define-fun strm.truncated ((terr Int)) Int (ite (= terr 901) 902 terr))
; little-endian word in byte memory m at base b + offset k (used as strm.le32mem(slice, k))
(define-fun strm.le32mem ((m (Array Int Int)) (b Int) (k Int)) Int (strm.le32 m (+ b k)))
; descriptor invariant on the writer side: version 01, reserved bits zero (FLG bits 1,0 / BD bits 7,3-0)
(define-fun hdr.wellFormed ((flags Int)) Bool
  (and (<= 0 flags) (< flags 32768) (= (mod flags 4) 0) (= (mod (div flags 64) 4) 1) (= (mod (div flags 256) 16) 0)))
