; blk — Int reading. used is uninterpreted here: callers in the int theory never unfold it,
; they only use the frame-style postconditions of get/put/reset (proved in the bv theory).
(declare-fun blk.used ((Array Int Int) Int Int) Bool)
(define-fun blk.cand ((t Int) (si Int)) Int
  (let ((i (+ t (- si (mod si 65536)))))
    (ite (>= i si) (- i 65536) i)))
