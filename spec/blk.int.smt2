; blk — Int reading. used is uninterpreted here: callers in the int theory never unfold it,
; they only use the frame-style postconditions of get/put/reset (proved in the bv theory).
(declare-fun blk.used ((Array Int Int) Int Int) Bool)
(define-fun blk.cand ((t Int) (si Int)) Int
  (let ((i (+ t (- si (mod si 65536)))))
    (ite (>= i si) (- i 65536) i)))
; block buffer size for a block-size index (4..7 modern, 3 legacy 8 MiB)
(define-fun blk.size ((b Int)) Int (ite (= b 4) 65536 (ite (= b 5) 262144 (ite (= b 6) 1048576 (ite (= b 7) 4194304 (ite (= b 3) 8388608 0))))))
(define-fun blk.validIndex ((b Int)) Bool (or (= b 3) (and (<= 4 b) (<= b 7))))
