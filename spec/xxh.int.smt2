; xxh — the reference XXH32 with seed 0 (xxHash specification, "XXH32 algorithm description"),
; written over Int with values in [0, 2^32). Used by the contracts of internal/xxh32 (C13).
;
; The 32-bit operations are the functions the engine uses for the Go operators in theory u32, so
; that a code term and a reference term over equal operands are equal by congruence:
;   a + b              u32.add a b     (a+b) mod 2^32
;   a * c              u32.mul a c     (a*c) mod 2^32
;   a<<k | a>>(32-k)   u32.rolK a      rotation by k
;   a ^ (a >> k)       bit.xor a (a div 2^k)
; The solvers are told only that their results lie in [0, 2^32): every proof about this library is
; valid for any functions with that range, in particular for the intended ones.
; M is a byte memory (every element in 0..255), p a start address, n a length.
; little-endian word at offset o from base p (element addresses are idx(p, o), as in the engine)
(define-fun xxh.le32 ((d (Array Int Int)) (p Int) (o Int)) Int
  (+ (select d (idx p o)) (* 256 (select d (idx p (+ o 1)))) (* 65536 (select d (idx p (+ o 2)))) (* 16777216 (select d (idx p (+ o 3))))))
; one lane round: v <- rol13(v + x*PRIME2) * PRIME1
(define-fun xxh.round ((v Int) (x Int)) Int
  (u32.mul (u32.rol13 (u32.add v (u32.mul x 2246822519))) 2654435761))
; initial lane values for seed 0: PRIME1+PRIME2, PRIME2, 0, -PRIME1
(define-fun xxh.init ((i Int)) Int (ite (= i 0) 606290984 (ite (= i 1) 2246822519 (ite (= i 2) 0 1640531535))))
; lane i after k 16-byte stripes read from p, starting from lane value s:
;   laneFrom(M,p,k,i,s) = s                                                      if k <= 0
;                       = round(laneFrom(M,p,k-1,i,s), le32(M,p,16(k-1)+4i))     otherwise
; (well-founded recursion on k, so the function exists). It is given to the solvers in the
; fuel encoding: a solver unfolds a term that occurs in a contract once, and the terms that the
; unfolding produces (fuel 0) not at all -- define-fun-rec made z3 unfold without end.
(declare-fun xxh.laneFuel (Int (Array Int Int) Int Int Int Int) Int)
(define-fun xxh.laneFrom ((M (Array Int Int)) (p Int) (k Int) (i Int) (s Int)) Int (xxh.laneFuel 1 M p k i s))
(assert (forall ((M (Array Int Int)) (p Int) (k Int) (i Int) (s Int))
  (! (= (xxh.laneFuel 1 M p k i s)
        (ite (<= k 0) s (xxh.round (xxh.laneFuel 0 M p (- k 1) i s) (xxh.le32 M p (+ (* 16 (- k 1)) (* 4 i))))))
     :pattern ((xxh.laneFuel 1 M p k i s)))))
(assert (forall ((M (Array Int Int)) (p Int) (k Int) (i Int) (s Int))
  (! (= (xxh.laneFuel 1 M p k i s) (xxh.laneFuel 0 M p k i s)) :pattern ((xxh.laneFuel 1 M p k i s)))))
(define-fun xxh.lane ((M (Array Int Int)) (p Int) (k Int) (i Int)) Int (xxh.laneFrom M p k i (xxh.init i)))
; convergence of four lane values
(define-fun xxh.conv ((a Int) (b Int) (c Int) (d Int)) Int
  (u32.add (u32.add (u32.add (u32.rol1 a) (u32.rol7 b)) (u32.rol12 c)) (u32.rol18 d)))
; accumulator before the tail, total length n (n may exceed 32 bits; only its low word is added)
(define-fun xxh.h0 ((M (Array Int Int)) (p Int) (n Int)) Int
  (ite (>= n 16)
       (u32.add (mod n 4294967296)
                (xxh.conv (xxh.lane M p (div n 16) 0) (xxh.lane M p (div n 16) 1) (xxh.lane M p (div n 16) 2) (xxh.lane M p (div n 16) 3)))
       (u32.add (mod n 4294967296) 374761393)))
(define-fun xxh.step4 ((h Int) (x Int)) Int
  (u32.mul (u32.rol17 (u32.add h (u32.mul x 3266489917))) 668265263))
(define-fun xxh.step1 ((h Int) (b Int)) Int
  (u32.mul (u32.rol11 (u32.add h (u32.mul b 374761393))) 2654435761))
; h after k (0..3) little-endian words read at offset o from p
(define-fun xxh.tail4 ((M (Array Int Int)) (p Int) (o Int) (k Int) (h Int)) Int
  (let ((h1 (ite (>= k 1) (xxh.step4 h (xxh.le32 M p o)) h)))
  (let ((h2 (ite (>= k 2) (xxh.step4 h1 (xxh.le32 M p (+ o 4))) h1)))
  (ite (>= k 3) (xxh.step4 h2 (xxh.le32 M p (+ o 8))) h2))))
; h after k (0..3) single bytes read at offset o from p
(define-fun xxh.tail1 ((M (Array Int Int)) (p Int) (o Int) (k Int) (h Int)) Int
  (let ((h1 (ite (>= k 1) (xxh.step1 h (select M (idx p o))) h)))
  (let ((h2 (ite (>= k 2) (xxh.step1 h1 (select M (idx p (+ o 1)))) h1)))
  (ite (>= k 3) (xxh.step1 h2 (select M (idx p (+ o 2)))) h2))))
; final avalanche
(define-fun xxh.aval ((h Int)) Int
  (let ((a (bit.xor h (div h 32768))))
  (let ((b (u32.mul a 2246822519)))
  (let ((c (bit.xor b (div b 8192))))
  (let ((d (u32.mul c 3266489917)))
  (bit.xor d (div d 65536)))))))
; the tail of r (0..15) bytes at offset o from p applied to h
(define-fun xxh.tail ((M (Array Int Int)) (p Int) (o Int) (r Int) (h Int)) Int
  (xxh.tail1 M p (+ o (* 4 (div r 4))) (mod r 4) (xxh.tail4 M p o (div r 4) h)))
; XXH32 of the n bytes at p
(define-fun xxh.sum ((M (Array Int Int)) (p Int) (n Int)) Int
  (xxh.aval (xxh.tail M p (* 16 (div n 16)) (mod n 16) (xxh.h0 M p n))))

; ---- lemmas (proved by the engine, pseudo function lemmas.xxh) ----
; the lanes depend only on the bytes they cover, wherever those bytes are
(lemma xxh.lane_moves
  :props (C13)
  :vars ((M1 (Array Int Int)) (p1 Int) (M2 (Array Int Int)) (p2 Int) (k Int) (i Int) (s Int))
  :induction k
  :statement (=> (and (<= 0 i) (<= i 3)
                      (forall ((j Int)) (! (=> (and (<= 0 j) (< j (* 16 k))) (= (select M1 (idx p1 j)) (select M2 (idx p2 j)))) :pattern ((idx p1 j)) :pattern ((idx p2 j)))))
                 (= (xxh.laneFrom M1 p1 k i s) (xxh.laneFrom M2 p2 k i s)))
  :opaque (xxh.round)
  :pattern ((xxh.laneFrom M1 p1 k i s) (xxh.laneFrom M2 p2 k i s)))
; a + k stripes are a stripes followed by k stripes (q is the address of stripe a; stated with a
; variable of its own so that the trigger contains no arithmetic)
(lemma xxh.lane_split
  :props (C13)
  :vars ((M (Array Int Int)) (p Int) (q Int) (a Int) (k Int) (i Int) (s Int))
  :induction k
  :statement (=> (and (>= a 0) (= q (+ p (* 16 a))))
                 (= (xxh.laneFrom M p (+ a k) i s) (xxh.laneFrom M q k i (xxh.laneFrom M p a i s))))
  :opaque (xxh.round)
  :pattern ((xxh.laneFrom M q k i (xxh.laneFrom M p a i s))))
; the same helper as in strm (contracts shared with the frame-level callers use this name)
(define-fun strm.le32mem ((m (Array Int Int)) (b Int) (k Int)) Int
  (+ (select m (+ b k)) (* 256 (select m (+ (+ b k) 1))) (* 65536 (select m (+ (+ b k) 2))) (* 16777216 (select m (+ (+ b k) 3)))))
