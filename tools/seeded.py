#!/usr/bin/env python3
"""Confirm a seeded property-breaking change and run the registered checks against it.

usage: seeded.py <id> <out_dir> <demo_dir_relative> <property>[,<property>...] [--name NAME]

1. In a scratch worktree of /repo HEAD: apply the patch, run the pinned suite (must stay 180/180),
   run the demonstration (must FAIL), undo the patch, run it again (must PASS).
2. Apply the patch to /repo, run the quick check of each listed property, undo it.
3. Store everything under /verif/seeded/<name>/ (patch.diff, demo, meta.json).
"""
import json, os, re, shutil, subprocess, sys, tempfile

ENV = dict(os.environ, GOFLAGS="-mod=mod", GOPROXY="off", GOSUMDB="off", GOTOOLCHAIN="local")

def sh(cmd, cwd, timeout=1200):
    p = subprocess.run(cmd, cwd=cwd, env=ENV, shell=True, capture_output=True, text=True, timeout=timeout)
    return p.returncode, p.stdout + p.stderr

def main():
    mid, out, demodir, props = sys.argv[1], sys.argv[2], sys.argv[3], sys.argv[4].split(",")
    name = mid
    if "--name" in sys.argv:
        name = sys.argv[sys.argv.index("--name") + 1]
    patch = os.path.join(out, "patch.diff")
    demo = os.path.join(out, "demo_test.go")
    wt = tempfile.mkdtemp(prefix="seedwt-", dir="/tmp")
    os.rmdir(wt)
    meta = {"id": name, "breaks": props, "source": "independent sub-agent given only the property text", "ran": []}
    try:
        rc, o = sh(f"git worktree add -q --detach {wt} HEAD", "/repo")
        assert rc == 0, o
        rc, o = sh(f"git apply {patch} || git apply --3way {patch}", wt)
        if rc != 0:
            print("PATCH DOES NOT APPLY:", o[-600:])
            meta["status"] = "patch does not apply to the current tree"
            return meta, None
        rc, newpatch = sh("git diff", wt)
        rc, o = sh("go build ./... ", wt)
        meta["ran"].append("go build ./... -> rc %d" % rc)
        assert rc == 0, "does not build: " + o
        rc, o = sh(f"python3 /verif/tools/baseline.py {wt}", wt)
        meta["ran"].append("tools/baseline.py (pinned suite, guard off) -> " + o.strip().splitlines()[0])
        base_ok = rc == 0
        tgt = os.path.join(wt, demodir, "zz_seeded_demo_test.go")
        shutil.copy(demo, tgt)
        run = re.search(r"func (Test\w+)", open(demo).read()).group(1)
        allt = "|".join(sorted(set(re.findall(r"func (Test\w+)\(", open(demo).read()))))
        cmd = f"go test {os.environ.get('SEED_GOFLAGS', '')} -vet=off -count=1 -timeout 300s -run '^({allt})$' ./{demodir}"
        rc_with, o_with = sh(cmd, wt)
        meta["ran"].append(cmd + " [with the change] -> " + ("FAIL" if rc_with else "ok"))
        sh("git checkout -- . ", wt)
        shutil.copy(demo, tgt)
        rc_wo, o_wo = sh(cmd, wt)
        meta["ran"].append(cmd + " [unchanged tree] -> " + ("FAIL" if rc_wo else "ok"))
        meta["confirmed"] = bool(base_ok and rc_with != 0 and rc_wo == 0)
        meta["demo_failure_excerpt"] = "\n".join(l for l in o_with.splitlines() if "FAIL" in l or "Error" in l or "---" in l)[:1500]
        if not meta["confirmed"]:
            print("NOT CONFIRMED: baseline_ok=%s with=%d without=%d" % (base_ok, rc_with, rc_wo))
            print(o_wo[-800:] if rc_wo else o_with[-800:])
        return meta, newpatch
    finally:
        sh(f"git worktree remove --force {wt}", "/repo")
        shutil.rmtree(wt, ignore_errors=True)

if __name__ == "__main__":
    meta, newpatch = main()
    mid = meta["id"]
    dst = f"/verif/seeded/{mid}"
    os.makedirs(dst, exist_ok=True)
    if newpatch:
        open(os.path.join(dst, "patch.diff"), "w").write(newpatch)
        shutil.copy(os.path.join(sys.argv[2], "demo_test.go"), os.path.join(dst, "demo_test.go"))
        if os.path.exists(os.path.join(sys.argv[2], "notes.md")):
            shutil.copy(os.path.join(sys.argv[2], "notes.md"), os.path.join(dst, "notes.md"))
        meta["demo_dir"] = sys.argv[3]
        # run the checks against /repo with the change applied
        rc, o = sh("git status --porcelain --untracked-files=no", "/repo")
        assert o.strip() == "", "/repo has uncommitted changes: " + o
        rc, o = sh(f"git apply {dst}/patch.diff", "/repo")
        assert rc == 0, o
        det = {}
        try:
            for p in meta["breaks"]:
                rc, o = sh(f"bin/lz4verif check --property {p} --tier quick", "/verif", timeout=1800)
                lines = [l for l in o.splitlines() if l.startswith("VIOLATION") or l.startswith("UNDECIDED") or "failed obligation" in l]
                det[p] = {"exit": rc, "lines": lines[:12]}
                print(p, "exit", rc, *lines[:6], sep="\n   ")
        finally:
            sh("git checkout -- .", "/repo")
        meta["checks"] = det
        meta["detected_by"] = [p for p, d in det.items() if d["exit"] == 1]
    json.dump(meta, open(os.path.join(dst, "meta.json"), "w"), indent=1)
    print(json.dumps({k: meta[k] for k in meta if k in ("id", "confirmed", "detected_by", "status")}))
