#!/bin/bash
# re-run every stored seeded change against the current checks (repo must be clean)
cd /repo || exit 2
if [ -n "$(git status --porcelain --untracked-files=no)" ]; then echo "repo dirty"; exit 2; fi
rc=0
for d in /verif/seeded/*/; do
  n=$(basename $d)
  props=$(python3 -c "import json;print(' '.join(json.load(open('$d/meta.json')).get('detected_by',[]) or json.load(open('$d/meta.json')).get('props',[])))")
  git apply $d/patch.diff || { echo "$n: patch does not apply"; rc=1; continue; }
  hit=""
  for p in $props; do
    out=$(cd /verif && bin/lz4verif check --property $p --tier quick 2>&1)
    if echo "$out" | grep -q "^VIOLATION"; then hit="$hit $p"; fi
  done
  git checkout -- .
  if [ -z "$hit" ]; then echo "$n: MISSED (props: $props)"; rc=1; else echo "$n: detected by$hit"; fi
done
exit $rc
