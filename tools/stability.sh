#!/bin/bash
# every obligation must be discharged for several solver seeds (a proof that depends on the seed is a
# false alarm waiting to happen); only the two known-finding obligations may fail
cd /verif || exit 2
rc=0
for s in ${@:-0 1 2 3 4}; do
  out=$(VERIF_SEED=$s bin/lz4verif func all 2>&1 | grep -v " 0 failed" | grep -v "legacy_full_blocks_are_compressed#1\|legacy_eof_consumes_all#2\|FrameDataBlock.Compress: .* 1 failed\|FrameDataBlock.Read: .* 1 failed")
  if [ -n "$out" ]; then echo "== seed $s"; echo "$out"; rc=1; else echo "seed $s: stable"; fi
done
exit $rc
