#!/usr/bin/env python3
"""Must-fail / must-pass corpus for lz4verif.

Each entry edits /repo's working tree in place (textual replacement), runs the quick check of the
listed properties and restores the tree with `git checkout`. A `break` entry must make at least
one of its properties report a VIOLATION; a `benign` entry (behaviour-preserving edit) must leave
all of them passing. Run after every engine change:  tools/selftest.py [name-substring ...]
/repo must be clean (the tool refuses otherwise)."""
import subprocess, sys, os, time

REPO = "/repo"
VERIF = os.path.dirname(os.path.dirname(os.path.abspath(__file__)))

CORPUS = [
    # ---- C13 ----
    dict(name="C13-sum32-truncated-compare", kind="break", props=["C13"], file="internal/xxh32/xxh32zero.go",
         old="if xxh.totalLen >= 16 {", new="if h32 >= 16 {"),
    dict(name="C13-update-swapped-words", kind="break", props=["C13"], file="internal/xxh32/xxh32zero.go",
         old="v2 = rol13(v2+binary.LittleEndian.Uint32(buf[4:])*prime2) * prime1\n\t\tv3 = rol13(v3+binary.LittleEndian.Uint32(buf[8:])*prime2) * prime1",
         new="v2 = rol13(v2+binary.LittleEndian.Uint32(buf[8:])*prime2) * prime1\n\t\tv3 = rol13(v3+binary.LittleEndian.Uint32(buf[4:])*prime2) * prime1"),
    dict(name="C13-write-full-buffer-kept", kind="break", props=["C13"], file="internal/xxh32/xxh32zero.go",
         old="if n < r {", new="if n <= r {"),
    dict(name="C13-oneshot-tail-prime", kind="break", props=["C13"], file="internal/xxh32/xxh32zero.go",
         old="\t\th32 += binary.LittleEndian.Uint32(input[p:p+4]) * prime3\n\t\th32 = rol17(h32) * prime4\n\t}\n\tfor p < n {",
         new="\t\th32 += binary.LittleEndian.Uint32(input[p:p+4]) * prime3\n\t\th32 = rol17(h32) * prime1\n\t}\n\tfor p < n {"),
    dict(name="C13-rotation-amount", kind="break", props=["C13"], file="internal/xxh32/xxh32zero.go",
         old="return u<<13 | u>>19", new="return u<<12 | u>>20"),
    dict(name="C13-avalanche-shift", kind="break", props=["C13"], file="internal/xxh32/xxh32zero.go",
         old="\th32 ^= h32 >> 13\n\th32 *= prime3\n\th32 ^= h32 >> 16\n\n\treturn h32\n}\n\n// Portable version of ChecksumZero.",
         new="\th32 ^= h32 >> 12\n\th32 *= prime3\n\th32 ^= h32 >> 16\n\n\treturn h32\n}\n\n// Portable version of ChecksumZero."),
    dict(name="C13-reset-keeps-buffer", kind="break", props=["C13"], file="internal/xxh32/xxh32zero.go",
         old="\txxh.totalLen = 0\n\txxh.bufused = 0\n}", new="\txxh.totalLen = 0\n}"),
    # ---- bounded stand-in C20 ----
    dict(name="C20-sc-flag-passed-straight", kind="break", props=["C20"], file="cmd/lz4c/compress.go",
         old="lz4.ChecksumOption(!streamChecksum),", new="lz4.ChecksumOption(streamChecksum),"),
    dict(name="C20-uncompress-keeps-stale-tail", kind="break", props=["C20"], file="cmd/lz4c/uncompress.go",
         old="os.O_CREATE|os.O_WRONLY|os.O_TRUNC, mode", new="os.O_CREATE|os.O_WRONLY, mode"),
    dict(name="C20-block-checksum-flag-ignored", kind="break", props=["C20"], file="cmd/lz4c/compress.go",
         old="lz4.BlockChecksumOption(blockChecksum),", new="lz4.BlockChecksumOption(false),"),
    dict(name="C20-output-mode-fixed", kind="break", props=["C20"], file="cmd/lz4c/uncompress.go",
         old="mode := zinfo.Mode() // use the same mode for the output file", new="mode := zinfo.Mode() | 0o644 // use the same mode for the output file"),
    dict(name="C20-compress-leaves-the-mode-to-the-umask", kind="break", props=["C20"], file="cmd/lz4c/compress.go",
         old="\t\t\tif err := zfile.Chmod(mode); err != nil {\n\t\t\t\treturn fidx, err\n\t\t\t}\n", new=""),
    dict(name="C20-uncompress-leaves-the-mode-to-the-umask", kind="break", props=["C20"], file="cmd/lz4c/uncompress.go",
         old="\t\t\tif err := file.Chmod(mode); err != nil {\n\t\t\t\treturn fidx, err\n\t\t\t}\n", new=""),
    # ---- bounded stand-in C08 ----
    dict(name="C08-reset-after-close-waits-again", kind="break", props=["C08"], file="internal/lz4stream/block.go",
         old="\tb.Blocks = nil\n\terr := b.err", new="\terr := b.err"),
    dict(name="C08-flush-keeps-using-the-buffer", kind="break", props=["C08"], file="writer.go",
         old="\t\tif !w.isNotConcurrent() {\n\t\t\tsize := w.frame.Descriptor.Flags.BlockSizeIndex()\n\t\t\tw.data = size.Get()\n\t\t}\n\t\tw.idx = 0\n\t}\n\treturn nil",
         new="\t\tw.idx = 0\n\t}\n\treturn nil"),
    dict(name="C08-worker-releases-buffer-early", kind="break", props=["C08"], file="writer.go",
         old="\t\tc <- b.Compress(w.frame, data, w.level)\n\t\t<-c\n\t\tw.handler(len(b.Data))\n\t\tb.Close(w.frame)\n\t\tif safe {",
         new="\t\tc <- b.Compress(w.frame, data, w.level)\n\t\tw.handler(len(b.Data))\n\t\tb.Close(w.frame)\n\t\t<-c\n\t\tif safe {"),
    dict(name="C08-frame-reset-clears-before-stopping", kind="break", props=["C08"], file="internal/lz4stream/frame.go",
         old="\t_ = f.Blocks.close(f, num)\n\tf.Magic = 0\n\tf.Descriptor.Checksum = 0\n", new="\tf.Magic = 0\n\tf.Descriptor.Checksum = 0\n\t_ = f.Blocks.close(f, num)\n"),
    dict(name="C08-close-in-error-leaves-the-pipeline", kind="break", props=["C08"], file="writer.go",
         old="stop it.\n\t\tw.frame.Reset(w.num)\n\t\tw.wg.Wait()\n\t\treturn w.state.err", new="stop it.\n\t\treturn w.state.err"),
    dict(name="C08-close-after-failed-header-leaves-the-pipeline", kind="break", props=["C08"], file="writer.go",
         old="\tif err := w.Flush(); err != nil {\n\t\tw.frame.Reset(w.num)\n\t\tw.wg.Wait()\n\t\treturn err", new="\tif err := w.Flush(); err != nil {\n\t\treturn err"),
    dict(name="C08-close-does-not-wait-for-the-block-goroutines", kind="break", props=["C08"], file="writer.go",
         old="\t// callback and release their buffers.\n\tw.wg.Wait()\n", new="\t// callback and release their buffers.\n"),
    dict(name="C08-reset-does-not-wait-for-the-block-goroutines", kind="break", props=["C08"], file="writer.go",
         old="\tw.frame.Reset(w.num)\n\tw.wg.Wait()\n\tw.state.reset()", new="\tw.frame.Reset(w.num)\n\tw.state.reset()"),
    dict(name="C08-read-takes-an-empty-block-for-the-end", kind="break", props=["C08"], file="reader.go",
         old="\t\t\t\tr.data, ok = <-r.reads\n\t\t\t\tif !ok {", new="\t\t\t\tr.data, ok = <-r.reads\n\t\t\t\tif !ok || len(r.data) == 0 {"),
    dict(name="C08-writeto-takes-an-empty-block-for-the-end", kind="break", props=["C08"], file="reader.go",
         old="\t\t\tbn = len(dst)\n\t\t\tif !ok {", new="\t\t\tbn = len(dst)\n\t\t\tif !ok || bn == 0 {"),
    dict(name="C08-reader-reset-does-not-wait-for-the-old-stream", kind="break", props=["C08"], file="internal/lz4stream/block.go",
         old="\tb.closeR(io.ErrClosedPipe)\n\tfor buf := range reads {\n\t\tlz4block.Put(buf)\n\t}\n", new="\tb.closeR(io.ErrClosedPipe)\n\tgo func() {\n\t\tfor buf := range reads {\n\t\t\tlz4block.Put(buf)\n\t\t}\n\t}()\n"),
    dict(name="C17-writeto-after-read-is-an-unhandled-state", kind="break", props=["C17", "C08"], file="reader.go",
         old="\tcase readState:\n\t\t// Read was used first: WriteTo carries on from where it stopped.\n", new=""),
    dict(name="C17-writeto-after-read-drops-the-started-block", kind="break", props=["C17", "C02"], file="reader.go",
         old="\t\tbn, err = w.Write(rest)\n", new="\t\tbn, err = w.Write(rest[:0])\n"),
    dict(name="C17-empty-source-latches-a-wrapped-eof", kind="break", props=["C17"], file="reader.go",
         old="if err = r.init(); r.noFrame(err) || r.state.next(err) {", new="if err = r.init(); r.state.next(err) {"),
    dict(name="C17-empty-source-writeto-reports-eof", kind="break", props=["C17"], file="reader.go",
         old="\t\tif err = r.init(); r.noFrame(err) {\n\t\t\treturn 0, nil\n\t\t}\n\t\tif r.state.next(err) {", new="\t\tif err = r.init(); r.state.next(err) {"),
    dict(name="C17-no-frame-keeps-the-flags-of-the-previous-frame", kind="break", props=["C17", "C19"], file="reader.go",
         old="\tr.frame.Descriptor.Flags = 0\n\tr.state.state = closedState\n", new="\tr.state.state = closedState\n"),
    # ---- bounded stand-ins C01 / C04 / C12 ----
    dict(name="C01-fast-match-not-verified", kind="break", props=["C01"], file="internal/lz4block/block.go",
         old="if offset <= 0 || offset >= winSize || uint32(match>>8) != binary.LittleEndian.Uint32(src[ref2:]) {",
         new="if offset <= 0 || offset >= winSize || uint16(match>>8) != binary.LittleEndian.Uint16(src[ref2:]) {"),
    dict(name="C01-offset-bytes-swapped", kind="break", props=["C01"], file="internal/lz4block/block.go",
         old="dst[di-2], dst[di-1] = byte(offset), byte(offset>>8)\n\n\t\t// Encode match length part 2.\n\t\tif mLen >= 0xF {\n\t\t\tfor mLen -= 0xF; mLen >= 0xFF && di < len(dst); mLen -= 0xFF {",
         new="dst[di-1], dst[di-2] = byte(offset), byte(offset>>8)\n\n\t\t// Encode match length part 2.\n\t\tif mLen >= 0xF {\n\t\t\tfor mLen -= 0xF; mLen >= 0xFF && di < len(dst); mLen -= 0xFF {"),
    dict(name="C01-literal-length-run-one-short", kind="break", props=["C01"], file="internal/lz4block/block.go",
         old="for ; l >= 0xFF && di < len(dst); l -= 0xFF {", new="for ; l > 0xFF && di < len(dst); l -= 0xFF {"),
    dict(name="C01-literals-from-the-wrong-place", kind="break", props=["C01"], file="internal/lz4block/block.go",
         old="copy(dst[di:di+lLen], src[anchor:anchor+lLen])\n\t\tdi += lLen + 2\n\t\tanchor = si\n\n\t\t// Encode offset.\n\t\tif di > len(dst) {", new="copy(dst[di:di+lLen], src[anchor+1:anchor+1+lLen])\n\t\tdi += lLen + 2\n\t\tanchor = si\n\n\t\t// Encode offset.\n\t\tif di > len(dst) {"),
    dict(name="C01-forward-extension-counts-bits-not-bytes", kind="break", props=["C01"], file="internal/lz4block/block.go",
         old="si += bits.TrailingZeros64(x) >> 3\n\t\t\t\tbreak\n\t\t\t}\n\t\t}\n\n\t\tmLen = si - mLen\n\t\tif di >= len(dst) {", new="si += bits.TrailingZeros64(x) >> 2\n\t\t\t\tbreak\n\t\t\t}\n\t\t}\n\n\t\tmLen = si - mLen\n\t\tif di >= len(dst) {"),
    dict(name="C01-earlier-output-overwritten", kind="break", props=["C01"], file="internal/lz4block/block.go",
         old="\t\tdi += lLen + 2\n\t\tanchor = si\n", new="\t\tdi += lLen + 2\n\t\tanchor = si\n\t\tif di > 40 {\n\t\t\tdst[3] = 0\n\t\t}\n"),
    dict(name="C01-benign-rename-fast-compressor-locals", kind="benign", props=["C01", "C10"], file="internal/lz4block/block.go",
         regex=r"\b(lLen)\b", new="litLen"),
    dict(name="C01-benign-hex-literals-to-decimal", kind="benign", props=["C01"], file="internal/lz4block/block.go",
         regex=r"\b0xF\b", new="15"),
    dict(name="C01-hc-offset-off-by-one", kind="break", props=["C01"], file="internal/lz4block/block.go",
         old="\t\t\toffset = si - next\n", new="\t\t\toffset = si - next + 1\n"),
    dict(name="C01-hc-last-length-run-one-short", kind="break", props=["C01"], file="internal/lz4block/block.go",
         old="lLen -= 0xF\n\t\tfor ; lLen >= 0xFF; lLen -= 0xFF {", new="lLen -= 0xF\n\t\tfor ; lLen > 0xFF; lLen -= 0xFF {"),
    dict(name="C04-portable-shortcut2-allows-overlap", kind="break", props=["C04"], file="internal/lz4block/decode_other.go",
         old="mLen <= offset && offset < di {", new="mLen <= offset+1 && offset < di {"),
    dict(name="C04-portable-offset-read-late", kind="break", props=["C04"], file="internal/lz4block/decode_other.go",
         old="\t\toffset := u16(src[si:])\n", new="\t\toffset := u16(src[si+1:])\n"),
    dict(name="C04-portable-doubling-stops-early", kind="break", props=["C04", "C01"], file="internal/lz4block/decode_other.go",
         old="for n := offset; n <= bytesToCopy+offset; n *= 2 {", new="for n := offset; n < bytesToCopy; n *= 2 {"),
    dict(name="C04-benign-rename-decoder-locals", kind="benign", props=["C04", "C03"], file="internal/lz4block/decode_other.go",
         regex=r"\bbytesToCopy\b", new="chunk"),
    dict(name="C04-portable-dict-index-off-by-one", kind="break", props=["C04", "C12"], file="internal/lz4block/decode_other.go",
         old="fromDict := dict[uint(len(dict))+di-offset:]", new="fromDict := dict[uint(len(dict))+di-offset+1:]"),
    dict(name="C04-asm-interior-match-short", kind="break", props=["C04", "C12"], file="internal/lz4block/decode_amd64.s",
         old="\tCMPQ CX, $16\n", new="\tCMPQ CX, $17\n"),
    dict(name="C14-hc-chain-table-not-cleared", kind="benign", props=["C14"], file="internal/lz4block/block.go",
         old="\t\tc.hashTable = [htSize]int{}\n\t\tc.chainTable = [htSize]int{}\n", new="\t\tc.hashTable = [htSize]int{}\n"),
    dict(name="C14-hc-hash-table-not-cleared", kind="break", props=["C14"], file="internal/lz4block/block.go",
         old="\t\tc.hashTable = [htSize]int{}\n\t\tc.chainTable = [htSize]int{}\n", new="\t\tc.chainTable = [htSize]int{}\n"),
    dict(name="C14-fast-partial-reset", kind="break", props=["C14"], file="internal/lz4block/block.go",
         old="func (c *Compressor) reset() { c.inUse = [htSize / 32]uint32{} }", new="func (c *Compressor) reset() { c.inUse[0] = 0 }"),
    # ---- C16 / C02 (Reader window and delivery order) ----
    dict(name="C16-window-half-size", kind="break", props=["C16"], file="reader.go",
         old="preserveSize := 64*1024 - len(dst)", new="preserveSize := 32*1024 - len(dst)"),
    dict(name="C16-keeps-head-of-dictionary", kind="break", props=["C16"], file="reader.go",
         old="r.dict = r.dict[len(r.dict)-preserveSize:]", new="r.dict = r.dict[:preserveSize]"),
    dict(name="C16-benign-trim-earlier", kind="benign", props=["C16"], file="reader.go",
         old="if len(r.dict)+len(dst) > 128*1024 {", new="if len(r.dict)+len(dst) > 96*1024 {"),
    dict(name="C02-buffered-copy-from-start", kind="break", props=["C02"], file="reader.go",
         old="bn = copy(buf, r.data[r.idx:])", new="bn = copy(buf, r.data)"),
    dict(name="C02-direct-path-skips-dictionary", kind="break", props=["C16"], file="reader.go",
         old="\t\tr.dict = append(r.dict, dst...)\n\t}\n\tr.cum += uint32(len(dst))", new="\t\tif !direct {\n\t\t\tr.dict = append(r.dict, dst...)\n\t\t}\n\t}\n\tr.cum += uint32(len(dst))"),
    # ---- C02 (Writer accumulation) ----
    dict(name="C02-writer-copy-to-buffer-start", kind="break", props=["C02"], file="writer.go",
         old="m := copy(w.data[w.idx:], buf)", new="m := copy(w.data, buf)"),
    dict(name="C02-flush-drops-last-byte", kind="break", props=["C02"], file="writer.go",
         old="if err = w.write(w.data[:w.idx], !w.isNotConcurrent()); err != nil {", new="if err = w.write(w.data[:w.idx-1], !w.isNotConcurrent()); err != nil {"),
    dict(name="C02-readfrom-drops-last-byte", kind="break", props=["C02"], file="writer.go",
         old="err = w.write(data[:rn], true)", new="err = w.write(data[:rn-1], true)"),
    dict(name="C02-direct-block-resends-a-byte", kind="break", props=["C02"], file="writer.go",
         old="\t\t\tn += zn\n\t\t\tbuf = buf[zn:]", new="\t\t\tn += zn\n\t\t\tbuf = buf[zn-1:]"),
    dict(name="C02-benign-swap-updates", kind="benign", props=["C02"], file="writer.go",
         old="\t\tn += m\n\t\tw.idx += m\n", new="\t\tw.idx += m\n\t\tn += m\n"),
    # ---- Option closures (C09 / C17 / C18) ----
    dict(name="C09-blocksize-accepts-8mb", kind="break", props=["C09"], file="options.go",
         old="\t\tcase *Writer:\n\t\t\tsize := uint32(size)\n\t\t\tif !lz4block.Index(size).IsValid() {", new="\t\tcase *Writer:\n\t\t\tsize := uint32(size)\n\t\t\tif !lz4block.IsValid(size) {"),
    dict(name="C18-creader-checksum-option-sets-block-checksum", kind="break", props=["C18"], file="options.go",
         old="\t\tcase *CompressingReader:\n\t\t\tw.frame.Descriptor.Flags.ContentChecksumSet(flag)", new="\t\tcase *CompressingReader:\n\t\t\tw.frame.Descriptor.Flags.BlockChecksumSet(flag)"),
    dict(name="C17-level-set-before-validation", kind="break", props=["C17"], file="options.go",
         old="\t\tcase *Writer:\n\t\t\tswitch level {\n\t\t\tcase Fast, Level1, Level2, Level3, Level4, Level5, Level6, Level7, Level8, Level9:\n\t\t\tdefault:",
         new="\t\tcase *Writer:\n\t\t\tw.level = lz4block.CompressionLevel(level)\n\t\t\tswitch level {\n\t\t\tcase Fast, Level1, Level2, Level3, Level4, Level5, Level6, Level7, Level8, Level9:\n\t\t\tdefault:"),
    # ---- C18 ----
    dict(name="C18-overflow-drops-a-byte", kind="break", props=["C18"], file="compressing_reader.go",
         old="wr.ov = append(wr.ov, p[count : ]...)", new="wr.ov = append(wr.ov, p[count+1 : ]...)"),
    dict(name="C18-reset-keeps-overflow-position", kind="break", props=["C18"], file="compressing_reader.go",
         old="\t\tcopy(out, wr.ov[wr.ovPos : ])\n\t\twr.ov = wr.ov[ : 0]\n\t\twr.ovPos = 0\n\t\twr.dataPos = ovRem",
         new="\t\tcopy(out, wr.ov[wr.ovPos : ])\n\t\twr.ov = wr.ov[ : 0]\n\t\twr.dataPos = ovRem"),
    dict(name="C18-drain-from-start", kind="break", props=["C18"], file="compressing_reader.go",
         old="\t\twr.ovPos += copy(out, wr.ov[wr.ovPos : ])\n\t\treturn false", new="\t\twr.ovPos += copy(out, wr.ov)\n\t\treturn false"),
    dict(name="C18-flush-forgets-pending", kind="break", props=["C18"], file="compressing_reader.go",
         old="\t\tif zrd.out.dataPos > 0 {\n\t\t\tn = zrd.out.dataPos\n\t\t\tzrd.out.data = nil\n\t\t\tzrd.out.dataPos = 0\n\t\t\treturn\n\t\t} else {",
         new="\t\tif zrd.out.dataPos > 1 {\n\t\t\tn = zrd.out.dataPos\n\t\t\tzrd.out.data = nil\n\t\t\tzrd.out.dataPos = 0\n\t\t\treturn\n\t\t} else {"),
    dict(name="C18-early-return-with-one-byte-of-room", kind="benign", props=["C18"], file="compressing_reader.go",
         old="if zrd.out.dataPos == len(zrd.out.data) {", new="if zrd.out.dataPos >= len(zrd.out.data)-1 {"),
    dict(name="C18-no-trailer-on-empty-tail", kind="break", props=["C18"], file="compressing_reader.go",
         old="\t\t\terr = zrd.frame.CloseW(&zrd.out, 1)\n\t\t\tif err != nil {\n\t\t\t\treturn\n\t\t\t}\n\t\t\tzrd.state = crStateFlushing",
         new="\t\t\tif rCount > 0 {\n\t\t\t\terr = zrd.frame.CloseW(&zrd.out, 1)\n\t\t\t}\n\t\t\tif err != nil {\n\t\t\t\treturn\n\t\t\t}\n\t\t\tzrd.state = crStateFlushing"),
    dict(name="C18-benign-reorder-clear", kind="benign", props=["C18"], file="compressing_reader.go",
         old="\twr.data = nil\n\twr.dataPos = 0\n\twr.ov = wr.ov[ : 0]\n\twr.ovPos = 0\n}", new="\twr.dataPos = 0\n\twr.data = nil\n\twr.ovPos = 0\n\twr.ov = wr.ov[ : 0]\n}"),
    dict(name="C13-benign-rename-local", kind="benign", props=["C13"], file="internal/xxh32/xxh32zero.go",
         old="\tr := len(xxh.buf) - m\n\tif n < r {", new="\troom := len(xxh.buf) - m\n\tif n < room {"),
    # ---- legacy end-of-stream rule of the concurrent block reader (fixed defect dc6f628) ----
    dict(name="C06-legacy-trailer-rule-matches-failed-read", kind="break", props=["C06", "C15"], file="internal/lz4stream/block.go",
         old="if f.isLegacy() && cumx != 0 && cum == cumx {", new="if f.isLegacy() && cum == cumx {"),
    dict(name="C05-legacy-oversize-word-is-clean-end", kind="break", props=["C05"], file="internal/lz4stream/block.go",
         old="if f.isLegacy() && cumx != 0 && cum == cumx {", new="if f.isLegacy() && cum == cumx {",
         old2="\t\treturn x, lz4errors.ErrOptionInvalidBlockSize", new2="\t\treturn 0, lz4errors.ErrOptionInvalidBlockSize"),
    dict(name="C09-legacy-option-keeps-legacy-block-size", kind="break", props=["C09", "C17"], file="options.go",
         old="\t\t\tif !legacy && !rw.frame.Descriptor.Flags.BlockSizeIndex().IsValid() {", new="\t\t\tif false && !legacy && !rw.frame.Descriptor.Flags.BlockSizeIndex().IsValid() {"),
    # ---- behaviour-preserving edits of functions under contract (must not alarm) ----
    dict(name="C17-benign-reader-init-reordered", kind="benign", props=["C17", "C02"], file="reader.go",
         old="\tr.reads = data\n\tr.idx = 0\n\tsize := r.frame.Descriptor.Flags.BlockSizeIndex()\n\tr.data = size.Get()\n\tr.cum = 0\n",
         new="\tr.cum = 0\n\tr.idx = 0\n\tr.reads = data\n\tsize := r.frame.Descriptor.Flags.BlockSizeIndex()\n\tr.data = size.Get()\n"),
    dict(name="C17-benign-writer-init-reordered", kind="benign", props=["C17", "C09"], file="writer.go",
         old="\tsize := w.frame.Descriptor.Flags.BlockSizeIndex()\n\tw.data = size.Get()\n\tw.idx = 0\n\treturn w.frame.Descriptor.Write(w.frame, w.src)",
         new="\tw.idx = 0\n\tw.data = w.frame.Descriptor.Flags.BlockSizeIndex().Get()\n\treturn w.frame.Descriptor.Write(w.frame, w.src)"),
    dict(name="C05-benign-endmark-test-flipped", kind="benign", props=["C05", "C06"], file="internal/lz4stream/block.go",
         old="\t} else if x == 0 {\n\t\t// Marker for end of stream.", new="\t} else if 0 == x {\n\t\t// Marker for end of stream."),
    dict(name="C03-benign-decoder-increment-style", kind="benign", props=["C03", "C04"], file="internal/lz4block/decode_other.go",
         old="\t\tb := uint(src[si])\n\t\tsi++\n", new="\t\tb := uint(src[si])\n\t\tsi += 1\n"),
    dict(name="C13-benign-sum32-early-variable", kind="benign", props=["C13"], file="internal/xxh32/xxh32zero.go",
         old="\tp := 0\n\tn := xxh.bufused\n\tbuf := xxh.buf\n", new="\tn := xxh.bufused\n\tbuf := xxh.buf\n\tp := 0\n"),
    dict(name="C18-unexpected-eof-from-the-source-ends-the-input", kind="break", props=["C18", "C15"], file="lz4.go",
         old="\tif n == len(buf) {\n\t\terr = nil\n\t}\n\treturn\n}", new="\tif n == len(buf) {\n\t\terr = nil\n\t} else if err == io.ErrUnexpectedEOF {\n\t\terr = io.EOF\n\t}\n\treturn\n}"),
    dict(name="C08-reset-keeps-the-frame-of-a-running-stream", kind="break", props=["C08"], file="reader.go",
         old="\t\tr.frame.Blocks.CancelR(r.reads)\n\t\tr.frame = lz4stream.NewFrame()\n", new="\t\tr.frame.Reset(r.num)\n"),
    # ---- Blocks.CancelR, verified as a fragment since session 4 (was trusted) ----
    dict(name="C17-cancelr-writes-outside-its-frame", kind="break", props=["C17"], file="internal/lz4stream/block.go",
         old="\tb.closeR(io.ErrClosedPipe)\n\tfor buf := range reads {", new="\tb.closeR(io.ErrClosedPipe)\n\tb.Block = nil\n\tfor buf := range reads {"),
    dict(name="C17-benign-cancelr-loop-form", kind="benign", props=["C17"], file="internal/lz4stream/block.go",
         old="\tfor buf := range reads {\n\t\tlz4block.Put(buf)\n\t}\n}\n\n// closeR safely", new="\tfor {\n\t\tbuf, ok := <-reads\n\t\tif !ok {\n\t\t\tbreak\n\t\t}\n\t\tlz4block.Put(buf)\n\t}\n}\n\n// closeR safely"),
    dict(name="C15-concurrent-writer-writes-after-a-failure", kind="break", props=["C15"], file="internal/lz4stream/block.go",
         old="\t\t\t// Do not attempt to write the block upon any previous failure.\n\t\t\tif b.err == nil {", new="\t\t\t// Do not attempt to write the block upon any previous failure.\n\t\t\tif b.err == nil || block.Size > 0 {"),
    dict(name="C06-read-keeps-going-after-a-block-error", kind="break", props=["C06"], file="reader.go",
         old="\t\t\tdefault:\n\t\t\t\treturn\n\t\t\t}\n\t\t}\n\t\tif bn == 0 {", new="\t\t\tdefault:\n\t\t\t\tif n > 0 {\n\t\t\t\t\terr = nil\n\t\t\t\t}\n\t\t\t\treturn\n\t\t\t}\n\t\t}\n\t\tif bn == 0 {"),
    # ---- renamed locals (the `locals` line of the contract maps the old names by position) ----
    dict(name="C10-benign-rename-anchor", kind="benign", props=["C10"], file="internal/lz4block/block.go",
         regex=r"\banchor\b", new="anch"),
    dict(name="C03-benign-rename-di", kind="benign", props=["C03"], file="internal/lz4block/decode_other.go",
         regex=r"\bdi\b", new="dpos"),
    dict(name="C16-benign-rename-reader-locals", kind="benign", props=["C16"], file="reader.go",
         regex=r"\bdirect\b", new="straight"),
    dict(name="C13-benign-reorder-lanes", kind="benign", props=["C13"], file="internal/xxh32/xxh32zero.go",
         old="\txxh.v[0] = prime1plus2\n\txxh.v[1] = prime2\n", new="\txxh.v[1] = prime2\n\txxh.v[0] = prime1plus2\n"),
]


def sh(cmd, **kw):
    return subprocess.run(cmd, shell=True, capture_output=True, text=True, **kw)


def main():
    sel = sys.argv[1:]
    st = sh(f"git -C {REPO} status --porcelain --untracked-files=no").stdout.strip()
    if st:
        print("selftest: /repo has uncommitted changes; refusing\n" + st)
        return 2
    bad = 0
    for ent in CORPUS:
        if sel and not any(s in ent["name"] for s in sel):
            continue
        path = os.path.join(REPO, ent["file"])
        src = open(path).read()
        if "regex" in ent:
            import re
            if not re.search(ent["regex"], src):
                print(f"{ent['name']}: STALE (regex does not occur)")
                bad += 1
                continue
            out = re.sub(ent["regex"], ent["new"], src)
        else:
            if src.count(ent["old"]) != 1 or ("old2" in ent and src.count(ent["old2"]) != 1):
                print(f"{ent['name']}: STALE (pattern occurs {src.count(ent['old'])} times)")
                bad += 1
                continue
            out = src.replace(ent["old"], ent["new"])
            if "old2" in ent:
                out = out.replace(ent["old2"], ent["new2"])
        open(path, "w").write(out)
        try:
            b = sh(f"cd {REPO} && go build ./... 2>&1")
            if b.returncode != 0:
                print(f"{ent['name']}: mutant does not compile\n{b.stdout[-400:]}")
                bad += 1
                continue
            viol = []
            t0 = time.time()
            for p in ent["props"]:
                r = sh(f"cd {VERIF} && bin/lz4verif check --property {p} --tier quick")
                lines = [l for l in r.stdout.splitlines() if l.startswith("VIOLATION")]
                if r.returncode != 0 or lines:
                    viol.append((p, r.returncode, lines[:3]))
            dt = time.time() - t0
            if ent["kind"] == "break":
                ok = bool(viol)
            else:
                ok = not viol
            print(f"{ent['name']}: {'ok' if ok else 'WRONG'} ({ent['kind']}; {len(viol)} of {len(ent['props'])} checks alarmed; {dt:.0f}s)")
            for v in viol:
                for l in v[2][:2]:
                    print("    " + l[:200])
            if not ok:
                bad += 1
        finally:
            sh(f"git -C {REPO} checkout -- {ent['file']}")
    print("selftest:", "all as expected" if bad == 0 else f"{bad} entries wrong")
    return 1 if bad else 0


if __name__ == "__main__":
    sys.exit(main())
