#!/usr/bin/env python3
"""Insert or refresh the `//@   locals ...` line of every function under contract.

`lz4verif locals` prints, per contract key, the function's declared names in source order
(receiver, parameters, named results, then := / var / range / type-switch declarations).
The line records the names the contract was written against, so that a later rename of a
local (same position, new name) is followed by the engine instead of failing closed.
Run after editing contracts:  tools/locals.py   (rewrites the four verif_contracts.go files)."""
import subprocess, re, sys, os
repo = os.environ.get("LZ4VERIF_REPO", "/repo")
out = subprocess.run(["/verif/bin/lz4verif", "locals"], capture_output=True, text=True, check=True).stdout
names = {}
for line in out.splitlines():
    k, _, v = line.partition("\t")
    names[k] = v.split()
files = {"lz4": "verif_contracts.go", "lz4block": "internal/lz4block/verif_contracts.go",
         "lz4stream": "internal/lz4stream/verif_contracts.go", "xxh32": "internal/xxh32/verif_contracts.go"}
for pkg, rel in files.items():
    p = os.path.join(repo, rel)
    src = open(p).read().split("\n")
    res = []
    i = 0
    while i < len(src):
        ln = src[i]
        res.append(ln)
        m = re.match(r"^//@ func (\S+)", ln)
        if m:
            key = pkg + "." + m.group(1)
            # drop an existing locals line directly below
            if i + 1 < len(src) and re.match(r"^//@\s+locals\b", src[i + 1]):
                i += 1
            ns = names.get(key)
            if ns and len(ns) > 0:
                res.append("//@   locals " + " ".join(ns))
        i += 1
    open(p, "w").write("\n".join(res))
    print(rel, "updated")
