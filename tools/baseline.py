#!/usr/bin/env python3
"""Run the pinned test suite of /repo (guard off) and compare with /root/.vp/BASELINE.json stable_pass."""
import json, subprocess, sys, os
repo = sys.argv[1] if len(sys.argv) > 1 else "/repo"
env = dict(os.environ, GOFLAGS="-mod=mod", GOPROXY="off", GOSUMDB="off", GOTOOLCHAIN="local")
p = subprocess.run(["go", "test", "-json", "-vet=off", "-count=1", "-timeout", "25m", "./..."], cwd=repo, env=env, capture_output=True, text=True)
res = {}
for line in p.stdout.splitlines():
    try:
        ev = json.loads(line)
    except Exception:
        continue
    if ev.get("Test") and ev.get("Action") in ("pass", "fail", "skip"):
        res[ev["Package"] + "::" + ev["Test"]] = ev["Action"]
base = json.load(open("/root/.vp/BASELINE.json"))
ncpu = os.cpu_count()
def ok(t):
    if res.get(t) == "pass":
        return True
    # sub-test names that embed runtime.GOMAXPROCS (8 on the baseline machine)
    return res.get(t.replace("ConcurrencyOption(8)", "ConcurrencyOption(%d)" % ncpu)) == "pass"
missing = [t for t in base["stable_pass"] if not ok(t)]
print(f"baseline: {len(base['stable_pass']) - len(missing)}/{len(base['stable_pass'])} stable tests pass")
for t in missing[:20]:
    print("  NOT PASSING:", t, res.get(t))
sys.exit(1 if missing else 0)
