package main

func asmObligations(e *Engine, prop string, scratch string) ([]*Obligation, asmInfoT, string) {
	return nil, asmInfoT{}, ""
}
