package main

func asmObligations(e *Engine, prop string, scratch string) ([]*Obligation, asmInfoT, string) {
	return nil, asmInfoT{}, ""
}

func replayObligation(e *Engine, o *Obligation, scratch string) map[string]interface{} {
	return map[string]interface{}{"confirmed": false, "note": "no concrete failing input was derived from the solver's answer"}
}
