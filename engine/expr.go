package main

// Expression AST of the intermediate verification language (IVL).
// Both front ends (go/ssa and amd64 objdump) lower to these terms; the VC
// generator substitutes Cell nodes by their current incarnation and prints
// SMT-LIB 2.

import (
	"fmt"
	"math/big"
	"strings"
)

type Sort string

const (
	SBool Sort = "Bool"
	SInt  Sort = "Int"
)

func BV(w int) Sort { return Sort(fmt.Sprintf("(_ BitVec %d)", w)) }
func ArrayOf(i, e Sort) Sort {
	return Sort("(Array " + string(i) + " " + string(e) + ")")
}
func (s Sort) IsBV() bool { return strings.HasPrefix(string(s), "(_ BitVec") }
func (s Sort) BVWidth() int {
	var w int
	fmt.Sscanf(string(s), "(_ BitVec %d)", &w)
	return w
}
func (s Sort) IsArray() bool { return strings.HasPrefix(string(s), "(Array ") }

// ArrayParts splits "(Array I E)" into I and E.
func (s Sort) ArrayParts() (Sort, Sort) {
	str := strings.TrimSuffix(strings.TrimPrefix(string(s), "(Array "), ")")
	depth := 0
	for i, c := range str {
		switch c {
		case '(':
			depth++
		case ')':
			depth--
		case ' ':
			if depth == 0 {
				return Sort(str[:i]), Sort(str[i+1:])
			}
		}
	}
	panic("bad array sort " + string(s))
}

type Expr interface {
	Sort() Sort
}

// Var is an SMT constant / bound variable (already an incarnation).
type Var struct {
	Name string
	S    Sort
}

// Cell is a mutable program cell; resolved against a state by the VC generator.
type Cell struct {
	Name string
	S    Sort
}

type Lit struct {
	Text string
	S    Sort
}

type App struct {
	Op   string
	Args []Expr
	S    Sort
}

type Quant struct {
	Forall bool
	Vars   []*Var
	Body   Expr
	Pats   [][]Expr
}

func (v *Var) Sort() Sort   { return v.S }
func (v *Cell) Sort() Sort  { return v.S }
func (v *Lit) Sort() Sort   { return v.S }
func (v *App) Sort() Sort   { return v.S }
func (v *Quant) Sort() Sort { return SBool }

var (
	True  = &Lit{"true", SBool}
	False = &Lit{"false", SBool}
)

func IntLit(n int64) Expr { return BigLit(big.NewInt(n)) }
func BigLit(n *big.Int) Expr {
	if n.Sign() < 0 {
		return &Lit{"(- " + new(big.Int).Neg(n).String() + ")", SInt}
	}
	return &Lit{n.String(), SInt}
}
func BVLit(n *big.Int, w int) Expr {
	m := new(big.Int).Lsh(big.NewInt(1), uint(w))
	v := new(big.Int).Mod(n, m)
	return &Lit{fmt.Sprintf("(_ bv%s %d)", v.String(), w), BV(w)}
}
func BVLit64(n uint64, w int) Expr { return BVLit(new(big.Int).SetUint64(n), w) }

func isLit(e Expr, text string) bool {
	l, ok := e.(*Lit)
	return ok && l.Text == text
}

func litInt(e Expr) (*big.Int, bool) {
	l, ok := e.(*Lit)
	if !ok || l.S != SInt {
		return nil, false
	}
	t := l.Text
	neg := false
	if strings.HasPrefix(t, "(- ") {
		neg = true
		t = strings.TrimSuffix(strings.TrimPrefix(t, "(- "), ")")
	}
	n, ok := new(big.Int).SetString(t, 10)
	if !ok {
		return nil, false
	}
	if neg {
		n.Neg(n)
	}
	return n, true
}

func mk(op string, s Sort, args ...Expr) Expr { return &App{op, args, s} }

func And(es ...Expr) Expr {
	var out []Expr
	for _, e := range es {
		if e == nil || isLit(e, "true") {
			continue
		}
		if isLit(e, "false") {
			return False
		}
		if a, ok := e.(*App); ok && a.Op == "and" {
			out = append(out, a.Args...)
			continue
		}
		out = append(out, e)
	}
	switch len(out) {
	case 0:
		return True
	case 1:
		return out[0]
	}
	return &App{"and", out, SBool}
}

func Or(es ...Expr) Expr {
	var out []Expr
	for _, e := range es {
		if e == nil || isLit(e, "false") {
			continue
		}
		if isLit(e, "true") {
			return True
		}
		out = append(out, e)
	}
	switch len(out) {
	case 0:
		return False
	case 1:
		return out[0]
	}
	return &App{"or", out, SBool}
}

func Not(e Expr) Expr {
	if isLit(e, "true") {
		return False
	}
	if isLit(e, "false") {
		return True
	}
	if a, ok := e.(*App); ok && a.Op == "not" {
		return a.Args[0]
	}
	return mk("not", SBool, e)
}

func Implies(a, b Expr) Expr {
	if isLit(a, "true") {
		return b
	}
	if isLit(a, "false") || isLit(b, "true") {
		return True
	}
	return mk("=>", SBool, a, b)
}

func Eq(a, b Expr) Expr {
	if a.Sort() != b.Sort() {
		panic(fmt.Sprintf("Eq sort mismatch: %s:%s vs %s:%s", Print(a), a.Sort(), Print(b), b.Sort()))
	}
	return mk("=", SBool, a, b)
}
func Ite(c, a, b Expr) Expr {
	if isLit(c, "true") {
		return a
	}
	if isLit(c, "false") {
		return b
	}
	if a.Sort() != b.Sort() {
		panic(fmt.Sprintf("Ite sort mismatch: %s vs %s", a.Sort(), b.Sort()))
	}
	return mk("ite", a.Sort(), c, a, b)
}

func Select(arr, idx Expr) Expr {
	_, es := arr.Sort().ArrayParts()
	return mk("select", es, arr, idx)
}
func Store(arr, idx, v Expr) Expr { return mk("store", arr.Sort(), arr, idx, v) }

// Integer helpers (SInt).
func IAdd(a, b Expr) Expr {
	if x, ok := litInt(a); ok {
		if y, ok := litInt(b); ok {
			return BigLit(new(big.Int).Add(x, y))
		}
		if x.Sign() == 0 {
			return b
		}
	}
	if y, ok := litInt(b); ok && y.Sign() == 0 {
		return a
	}
	return mk("+", SInt, a, b)
}
func ISub(a, b Expr) Expr {
	if x, ok := litInt(a); ok {
		if y, ok := litInt(b); ok {
			return BigLit(new(big.Int).Sub(x, y))
		}
	}
	if y, ok := litInt(b); ok && y.Sign() == 0 {
		return a
	}
	return mk("-", SInt, a, b)
}
func IMul(a, b Expr) Expr {
	if x, ok := litInt(a); ok {
		if y, ok := litInt(b); ok {
			return BigLit(new(big.Int).Mul(x, y))
		}
	}
	return mk("*", SInt, a, b)
}
func ILe(a, b Expr) Expr { return mk("<=", SBool, a, b) }
func ILt(a, b Expr) Expr { return mk("<", SBool, a, b) }
func IGe(a, b Expr) Expr { return mk(">=", SBool, a, b) }
func IGt(a, b Expr) Expr { return mk(">", SBool, a, b) }

func pow2(k int) *big.Int { return new(big.Int).Lsh(big.NewInt(1), uint(k)) }

// Print renders an expression with no Cell nodes as SMT-LIB.
func Print(e Expr) string {
	var sb strings.Builder
	printTo(&sb, e, nil)
	return sb.String()
}

// PrintIn renders e, resolving Cell nodes through state.
func PrintIn(e Expr, state map[string]Expr) string {
	var sb strings.Builder
	printTo(&sb, e, state)
	return sb.String()
}

func printTo(sb *strings.Builder, e Expr, state map[string]Expr) {
	switch x := e.(type) {
	case *Var:
		sb.WriteString(x.Name)
	case *Cell:
		if state == nil {
			sb.WriteString("<cell:" + x.Name + ">")
			return
		}
		v, ok := state[x.Name]
		if !ok {
			panic("cell not in state: " + x.Name)
		}
		printTo(sb, v, nil)
	case *Lit:
		sb.WriteString(x.Text)
	case *App:
		if len(x.Args) == 0 {
			sb.WriteString(x.Op)
			return
		}
		sb.WriteByte('(')
		sb.WriteString(x.Op)
		for _, a := range x.Args {
			sb.WriteByte(' ')
			printTo(sb, a, state)
		}
		sb.WriteByte(')')
	case *Quant:
		if x.Forall {
			sb.WriteString("(forall (")
		} else {
			sb.WriteString("(exists (")
		}
		for _, v := range x.Vars {
			fmt.Fprintf(sb, "(%s %s)", v.Name, v.S)
		}
		sb.WriteString(") ")
		if len(x.Pats) > 0 {
			sb.WriteString("(! ")
		}
		printTo(sb, x.Body, state)
		for _, p := range x.Pats {
			sb.WriteString(" :pattern (")
			for i, t := range p {
				if i > 0 {
					sb.WriteByte(' ')
				}
				printTo(sb, t, state)
			}
			sb.WriteByte(')')
		}
		if len(x.Pats) > 0 {
			sb.WriteByte(')')
		}
		sb.WriteByte(')')
	default:
		panic(fmt.Sprintf("printTo: %T", e))
	}
}

// Subst replaces Var nodes by name (used for contract parameters / bound vars).
func Subst(e Expr, m map[string]Expr) Expr {
	switch x := e.(type) {
	case *Var:
		if r, ok := m[x.Name]; ok {
			return r
		}
		return x
	case *App:
		args := make([]Expr, len(x.Args))
		for i, a := range x.Args {
			args[i] = Subst(a, m)
		}
		return &App{x.Op, args, x.S}
	case *Quant:
		m2 := map[string]Expr{}
		for k, v := range m {
			m2[k] = v
		}
		for _, v := range x.Vars {
			delete(m2, v.Name)
		}
		var pats [][]Expr
		for _, p := range x.Pats {
			var pp []Expr
			for _, t := range p {
				pp = append(pp, Subst(t, m2))
			}
			pats = append(pats, pp)
		}
		return &Quant{x.Forall, x.Vars, Subst(x.Body, m2), pats}
	}
	return e
}

// RenameCells rewrites Cell references (used for old() snapshots).
func RenameCells(e Expr, f func(*Cell) Expr) Expr {
	switch x := e.(type) {
	case *Cell:
		return f(x)
	case *App:
		args := make([]Expr, len(x.Args))
		for i, a := range x.Args {
			args[i] = RenameCells(a, f)
		}
		return &App{x.Op, args, x.S}
	case *Quant:
		var pats [][]Expr
		for _, p := range x.Pats {
			var pp []Expr
			for _, t := range p {
				pp = append(pp, RenameCells(t, f))
			}
			pats = append(pats, pp)
		}
		return &Quant{x.Forall, x.Vars, RenameCells(x.Body, f), pats}
	}
	return e
}

// CellsOf collects the names of cells referenced in e.
func CellsOf(e Expr, out map[string]Sort) {
	switch x := e.(type) {
	case *Cell:
		out[x.Name] = x.S
	case *App:
		for _, a := range x.Args {
			CellsOf(a, out)
		}
	case *Quant:
		CellsOf(x.Body, out)
		for _, p := range x.Pats {
			for _, t := range p {
				CellsOf(t, out)
			}
		}
	}
}
