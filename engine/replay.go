package main

// From a failed obligation to a run of the real code.
//
// The solver's model (when there is one) is turned into arguments of the real
// function; the function is run in-package through `go test -overlay` (nothing
// is written under /repo) and the violated contract clauses are evaluated
// concretely. A model of a loop-cut region may describe an unreachable loop
// state, so when the model's input does not fail the harness searches inputs
// *near the model* (same length classes, mutated bytes) for a bounded time.
// Anything found is a real run of the real code; if nothing fails the report
// says no-failing-input-found.

import (
	"encoding/json"
	"fmt"
	"math/big"
	"os"
	"os/exec"
	"path/filepath"
	"regexp"
	"strconv"
	"strings"
	"time"
)

// ---- minimal s-expression reader for models ----

type sx struct {
	atom string
	list []*sx
}

func parseSx(s string) []*sx {
	var stack [][]*sx
	cur := []*sx{}
	i := 0
	for i < len(s) {
		c := s[i]
		switch {
		case c == '(':
			stack = append(stack, cur)
			cur = []*sx{}
			i++
		case c == ')':
			n := &sx{list: cur}
			if n.list == nil {
				n.list = []*sx{}
			}
			if len(stack) == 0 {
				return cur
			}
			cur = stack[len(stack)-1]
			stack = stack[:len(stack)-1]
			cur = append(cur, n)
			i++
		case c == ' ' || c == '\n' || c == '\t' || c == '\r':
			i++
		case c == ';':
			for i < len(s) && s[i] != '\n' {
				i++
			}
		case c == '|':
			j := i + 1
			for j < len(s) && s[j] != '|' {
				j++
			}
			cur = append(cur, &sx{atom: s[i : j+1]})
			i = j + 1
		default:
			j := i
			for j < len(s) && !strings.ContainsRune("() \n\t\r", rune(s[j])) {
				j++
			}
			cur = append(cur, &sx{atom: s[i:j]})
			i = j
		}
	}
	return cur
}

func (x *sx) isList() bool { return x.list != nil }
func (x *sx) head() string {
	if x.isList() && len(x.list) > 0 && !x.list[0].isList() {
		return x.list[0].atom
	}
	return ""
}

type model struct {
	defs map[string]*sx // name -> (define-fun name (args) sort body)
}

func parseModel(out string) *model {
	m := &model{defs: map[string]*sx{}}
	idx := strings.Index(out, "(")
	if idx < 0 {
		return m
	}
	forms := parseSx(out[idx:])
	var visit func(f *sx)
	visit = func(f *sx) {
		if !f.isList() {
			return
		}
		if f.head() == "define-fun" && len(f.list) >= 5 {
			m.defs[f.list[1].atom] = f
			return
		}
		for _, c := range f.list {
			visit(c)
		}
	}
	for _, f := range forms {
		visit(f)
	}
	return m
}

func sxInt(x *sx) (*big.Int, bool) {
	if x == nil {
		return nil, false
	}
	if !x.isList() {
		a := x.atom
		if strings.HasPrefix(a, "#x") {
			n, ok := new(big.Int).SetString(a[2:], 16)
			return n, ok
		}
		if strings.HasPrefix(a, "#b") {
			n, ok := new(big.Int).SetString(a[2:], 2)
			return n, ok
		}
		n, ok := new(big.Int).SetString(a, 10)
		return n, ok
	}
	if x.head() == "-" && len(x.list) == 2 {
		n, ok := sxInt(x.list[1])
		if ok {
			return new(big.Int).Neg(n), true
		}
	}
	if x.head() == "_" && len(x.list) == 3 && strings.HasPrefix(x.list[1].atom, "bv") {
		n, ok := new(big.Int).SetString(x.list[1].atom[2:], 10)
		return n, ok
	}
	return nil, false
}

// intConst returns the value of a nullary Int/BV definition.
func (m *model) intConst(name string) (*big.Int, bool) {
	d, ok := m.defs[name]
	if !ok {
		return nil, false
	}
	return sxInt(d.list[4])
}

// sliceConst returns (ptr,len,cap) of a Slice-valued constant.
func (m *model) sliceConst(name string) (p, l, c int64, ok bool) {
	d, found := m.defs[name]
	if !found {
		return
	}
	b := d.list[4]
	if b.head() != "mk-slice" && b.head() != "mk-slicebv" {
		return
	}
	pv, ok1 := sxInt(b.list[1])
	lv, ok2 := sxInt(b.list[2])
	cv, ok3 := sxInt(b.list[3])
	if !ok1 || !ok2 || !ok3 {
		return
	}
	return pv.Int64(), lv.Int64(), cv.Int64(), true
}

// arrayAt evaluates an array-valued model term at index i (store chains, as const, as-array, lambda).
func (m *model) arrayAt(x *sx, i *big.Int, depth int) (*big.Int, bool) {
	if depth > 2000 || x == nil {
		return nil, false
	}
	if !x.isList() {
		if d, ok := m.defs[x.atom]; ok {
			return m.arrayAt(d.list[4], i, depth+1)
		}
		return nil, false
	}
	switch x.head() {
	case "store":
		idx, ok := sxInt(x.list[2])
		if ok && idx.Cmp(i) == 0 {
			return sxInt(x.list[3])
		}
		return m.arrayAt(x.list[1], i, depth+1)
	case "lambda":
		// (lambda ((x Int)) body)
		v := x.list[1].list[0].list[0].atom
		return m.evalInt(x.list[2], map[string]*big.Int{v: i}, depth+1)
	case "_":
		if len(x.list) == 3 && x.list[1].atom == "as-array" {
			f, ok := m.defs[x.list[2].atom]
			if !ok {
				return nil, false
			}
			v := f.list[2].list[0].list[0].atom
			return m.evalInt(f.list[4], map[string]*big.Int{v: i}, depth+1)
		}
	}
	// ((as const (Array Int Int)) 0)
	if len(x.list) == 2 && x.list[0].isList() && x.list[0].head() == "as" {
		return sxInt(x.list[1])
	}
	return nil, false
}

func (m *model) evalInt(x *sx, env map[string]*big.Int, depth int) (*big.Int, bool) {
	if depth > 4000 {
		return nil, false
	}
	if n, ok := sxInt(x); ok {
		return n, true
	}
	if !x.isList() {
		if v, ok := env[x.atom]; ok {
			return v, true
		}
		if n, ok := m.intConst(x.atom); ok {
			return n, true
		}
		return nil, false
	}
	switch x.head() {
	case "ite":
		c, ok := m.evalBool(x.list[1], env, depth+1)
		if !ok {
			return nil, false
		}
		if c {
			return m.evalInt(x.list[2], env, depth+1)
		}
		return m.evalInt(x.list[3], env, depth+1)
	case "+", "-", "*":
		var acc *big.Int
		for k, a := range x.list[1:] {
			v, ok := m.evalInt(a, env, depth+1)
			if !ok {
				return nil, false
			}
			if k == 0 {
				acc = new(big.Int).Set(v)
				if x.head() == "-" && len(x.list) == 2 {
					acc.Neg(acc)
				}
				continue
			}
			switch x.head() {
			case "+":
				acc.Add(acc, v)
			case "-":
				acc.Sub(acc, v)
			case "*":
				acc.Mul(acc, v)
			}
		}
		return acc, true
	case "select":
		i, ok := m.evalInt(x.list[2], env, depth+1)
		if !ok {
			return nil, false
		}
		return m.arrayAt(x.list[1], i, depth+1)
	}
	return nil, false
}

func (m *model) evalBool(x *sx, env map[string]*big.Int, depth int) (bool, bool) {
	if !x.isList() {
		switch x.atom {
		case "true":
			return true, true
		case "false":
			return false, true
		}
		return false, false
	}
	switch x.head() {
	case "=", "<", "<=", ">", ">=":
		a, ok1 := m.evalInt(x.list[1], env, depth+1)
		b, ok2 := m.evalInt(x.list[2], env, depth+1)
		if !ok1 || !ok2 {
			return false, false
		}
		c := a.Cmp(b)
		switch x.head() {
		case "=":
			return c == 0, true
		case "<":
			return c < 0, true
		case "<=":
			return c <= 0, true
		case ">":
			return c > 0, true
		case ">=":
			return c >= 0, true
		}
	case "not":
		v, ok := m.evalBool(x.list[1], env, depth+1)
		return !v, ok
	case "and":
		for _, a := range x.list[1:] {
			v, ok := m.evalBool(a, env, depth+1)
			if !ok {
				return false, false
			}
			if !v {
				return false, true
			}
		}
		return true, true
	case "or":
		for _, a := range x.list[1:] {
			v, ok := m.evalBool(a, env, depth+1)
			if !ok {
				return false, false
			}
			if v {
				return true, true
			}
		}
		return false, true
	}
	return false, false
}

// bytesOf reads n bytes at address p from the byte memory incarnation mem.
func (m *model) bytesOf(mem string, p, n int64) []byte {
	out := make([]byte, n)
	d, ok := m.defs[mem]
	if !ok {
		return out
	}
	for i := int64(0); i < n; i++ {
		v, ok := m.arrayAt(d.list[4], big.NewInt(p+i), 0)
		if ok {
			out[i] = byte(v.Int64())
		}
	}
	return out
}

// ---------------------------------------------------------------------

type replayCase struct {
	Func    string `json:"func"`
	Src     []byte `json:"src"`
	DstLen  int    `json:"dst_len"`
	DstCap  int    `json:"dst_cap"`
	Dict    []byte `json:"dict"`
	DstNil  bool   `json:"dst_nil"`
	Depth   uint32 `json:"depth"`
	Origin  string `json:"origin"`
	Budget  int    `json:"search_ms"`
	Seed    int    `json:"seed"`
	Clauses string `json:"clauses"`
}

var procRe = regexp.MustCompile(`^(\w+)\.(.*)$`)

const maxReplayAlloc = 1 << 22

// replayObligation tries to exhibit the failure on the real code.
func replayObligation(e *Engine, o *Obligation, scratch string) map[string]interface{} {
	res := map[string]interface{}{"confirmed": false}
	pkgDir, harness, ok := harnessFor(o.Proc)
	if ok && (harness == "reader" || harness == "writer" || harness == "xxh" || harness == "creader" || harness == "options") {
		// frame level: search driven by the obligation's subject (heap models are not API-reachable states)
		focus := strings.ToLower(o.Name)
		out, failed := runFrameHarness(pkgDir, harness, focus, scratch)
		res["harness"] = harness
		res["harness_output"] = truncate(out, 8000)
		res["confirmed"] = failed
		res["origin"] = "search around the obligation's subject with the frame-level harness (engine/harness/lz4_replay_test.go.txt)"
		if harness == "xxh" {
			res["origin"] = "comparison with an independent XXH32 over one-shot sums, incremental histories and totals around 2^32 (engine/harness/xxh32_replay_test.go.txt)"
		}
		return res
	}
	if !ok {
		res["note"] = "no replay harness for " + o.Proc + "; the failed obligation and the solver output are recorded"
		return res
	}
	m := parseModel(o.Output)
	rc := replayCase{Func: o.Proc, Origin: "solver-model", Budget: 4000, Seed: envInt("VERIF_SEED", 0), Clauses: o.Name}
	haveModel := false
	if _, l, c, ok := m.sliceConst("p$src!1"); ok && l >= 0 && l <= maxReplayAlloc {
		p, _, _, _ := m.sliceConst("p$src!1")
		rc.Src = m.bytesOf("M_uint8!1", p, l)
		_ = c
		haveModel = true
	}
	if _, l, c, ok := m.sliceConst("p$dst!1"); ok && l >= 0 && c >= l && c <= maxReplayAlloc {
		rc.DstLen, rc.DstCap = int(l), int(c)
	} else if haveModel {
		rc.DstLen, rc.DstCap = len(rc.Src)*3+16, len(rc.Src)*3+16
	}
	if p, l, _, ok := m.sliceConst("p$dict!1"); ok && l >= 0 && l <= maxReplayAlloc {
		rc.Dict = m.bytesOf("M_uint8!1", p, l)
	}
	if d, ok := m.intConst("p$depth!1"); ok {
		rc.Depth = uint32(d.Uint64())
	}
	if len(rc.Src) > 4096 {
		// loop-cut models often choose huge unconstrained lengths: keep the length classes, drop the bytes
		rc.Origin = "solver-model (lengths only; source of " + strconv.Itoa(len(rc.Src)) + " bytes not materialised)"
		rc.Src = nil
		haveModel = false
		if rc.DstLen > 4096 {
			rc.DstLen, rc.DstCap = 0, 0
		}
	}
	if o.Proc == "asm.decodeBlock" {
		// the assembly model has the argument words; loaded bytes are unconstrained there, so only
		// the lengths (and a nil destination) are taken from it and the harness searches the contents
		get := func(n string) int64 {
			if v, ok := m.intConst("arg$" + n + "!1"); ok && v.IsInt64() && v.Int64() >= 0 && v.Int64() <= maxReplayAlloc {
				return v.Int64()
			}
			return -1
		}
		if sl := get("src_len"); sl >= 0 {
			rc.Src = make([]byte, sl)
			haveModel = true
		}
		if dl := get("dst_len"); dl >= 0 {
			rc.DstLen, rc.DstCap = int(dl), int(dl)
			if dc := get("dst_cap"); dc >= dl {
				rc.DstCap = int(dc)
			}
		}
		if db, ok := m.intConst("arg$dst_base!1"); ok && db.Sign() == 0 {
			rc.DstNil = true
		}
		if kl := get("dict_len"); kl > 0 {
			rc.Dict = make([]byte, kl)
		}
		rc.Origin = "solver-model (argument words of the assembly function; contents searched)"
	}
	if !haveModel && rc.Src == nil && rc.Origin == "solver-model" {
		rc.Origin = "no-model (search only)"
		rc.Src = nil
		rc.DstLen, rc.DstCap = 0, 0
	}
	caseFile := filepath.Join(scratch, "replay_case.json")
	data, _ := json.Marshal(rc)
	os.WriteFile(caseFile, data, 0o644)
	out, failed := runHarness(pkgDir, harness, caseFile, scratch, o.Proc == "lz4block.decodeBlock")
	res["harness"] = harness
	res["case"] = rc
	res["harness_output"] = truncate(out, 8000)
	res["confirmed"] = failed
	res["rerun"] = fmt.Sprintf("cd %s && LZ4VERIF_CASE=<case.json> go test -overlay <ov.json> -vet=off -timeout 60s -run TestLz4verifReplay .  (see engine/replay.go)", pkgDir)
	return res
}

func harnessFor(proc string) (pkgDir, harness string, ok bool) {
	switch proc {
	case "lz4block.decodeBlock", "lz4block.UncompressBlock", "asm.decodeBlock":
		return filepath.Join(repoDir, "internal/lz4block"), "decode", true
	case "lz4block.Compressor.CompressBlock", "lz4block.CompressBlock":
		return filepath.Join(repoDir, "internal/lz4block"), "compress", true
	case "lz4block.CompressorHC.CompressBlock", "lz4block.CompressBlockHC":
		return filepath.Join(repoDir, "internal/lz4block"), "compresshc", true
	}
	if strings.HasPrefix(proc, "xxh32.") || proc == "lemmas.xxh" {
		return filepath.Join(repoDir, "internal/xxh32"), "xxh", true
	}
	if strings.HasPrefix(proc, "lz4.CompressingReader.") || strings.HasPrefix(proc, "lz4.ovWriter.") || proc == "lz4.NewCompressingReader" {
		return repoDir, "creader", true
	}
	if strings.HasPrefix(proc, "lz4.") && strings.Contains(proc, "Option$") {
		return repoDir, "options", true
	}
	readerFuncs := []string{"lz4stream.Frame.ParseHeaders", "lz4stream.Frame.readUint32", "lz4stream.FrameDescriptor.initR", "lz4stream.FrameDataBlock.Read",
		"lz4stream.FrameDataBlock.Uncompress", "lz4stream.Frame.CloseR", "lz4stream.Blocks.initR", "lz4stream.initR$", "lz4.Reader.", "lz4.ValidFrameHeader"}
	for _, p := range readerFuncs {
		if strings.HasPrefix(proc, p) {
			return repoDir, "reader", true
		}
	}
	writerFuncs := []string{"lz4stream.FrameDescriptor.Write", "lz4stream.FrameDescriptor.initW", "lz4stream.FrameDataBlock.Compress", "lz4stream.FrameDataBlock.Write",
		"lz4stream.Frame.CloseW", "lz4stream.Frame.InitW", "lz4stream.Blocks.initW", "lz4.Writer."}
	for _, p := range writerFuncs {
		if strings.HasPrefix(proc, p) {
			return repoDir, "writer", true
		}
	}
	return "", "", false
}

// runHarness runs the in-package replay test through an overlay. Portable
// decoder obligations are replayed with -tags noasm, and the default build is
// run as well so that a divergence between the two decoders is visible.
func runHarness(pkgDir, harness, caseFile, scratch string, noasm bool) (string, bool) {
	testSrc := filepath.Join(verifDir(), "engine", "harness", "lz4block_replay_test.go.txt")
	dst := filepath.Join(scratch, "zz_lz4verif_replay_test.go")
	data, err := os.ReadFile(testSrc)
	if err != nil {
		return "harness source missing: " + err.Error(), false
	}
	os.WriteFile(dst, data, 0o644)
	ov := map[string]map[string]string{"Replace": {filepath.Join(pkgDir, "zz_lz4verif_replay_test.go"): dst}}
	ovData, _ := json.Marshal(ov)
	ovFile := filepath.Join(scratch, "ov.json")
	os.WriteFile(ovFile, ovData, 0o644)
	var all strings.Builder
	failed := false
	tagSets := []string{""}
	if noasm {
		tagSets = []string{"noasm", ""}
	}
	for _, tags := range tagSets {
		args := []string{"test", "-v", "-overlay", ovFile, "-vet=off", "-count=1", "-timeout", "120s", "-run", "TestLz4verifReplay"}
		if tags != "" {
			args = append(args, "-tags", tags)
		}
		args = append(args, ".")
		cmd := exec.Command("go", args...)
		cmd.Dir = pkgDir
		cmd.Env = append(os.Environ(), "GOFLAGS=-mod=mod", "GOPROXY=off", "GOSUMDB=off", "GOTOOLCHAIN=local",
			"LZ4VERIF_CASE="+caseFile, "LZ4VERIF_HARNESS="+harness, "GOCACHE="+goCache())
		t0 := time.Now()
		out, _ := cmd.CombinedOutput()
		fmt.Fprintf(&all, "== tags=%q (%.1fs)\n%s\n", tags, time.Since(t0).Seconds(), string(out))
		if strings.Contains(string(out), "LZ4VERIF-FAIL") {
			failed = true
		}
	}
	return all.String(), failed
}

func goCache() string {
	if c := os.Getenv("GOCACHE"); c != "" {
		return c
	}
	home, _ := os.UserHomeDir()
	if home == "" {
		home = "/root"
	}
	return filepath.Join(home, ".cache", "go-build")
}

var _ = strconv.Itoa

func runFrameHarness(pkgDir, harness, focus, scratch string) (string, bool) {
	testSrc := filepath.Join(verifDir(), "engine", "harness", "lz4_replay_test.go.txt")
	if harness == "xxh" {
		testSrc = filepath.Join(verifDir(), "engine", "harness", "xxh32_replay_test.go.txt")
	}
	dst := filepath.Join(scratch, "zz_lz4verif_frame_replay_test.go")
	data, err := os.ReadFile(testSrc)
	if err != nil {
		return "harness source missing: " + err.Error(), false
	}
	os.WriteFile(dst, data, 0o644)
	ov := map[string]map[string]string{"Replace": {filepath.Join(pkgDir, "zz_lz4verif_frame_replay_test.go"): dst}}
	ovData, _ := json.Marshal(ov)
	ovFile := filepath.Join(scratch, "ovf.json")
	os.WriteFile(ovFile, ovData, 0o644)
	args := []string{"test", "-v", "-overlay", ovFile, "-vet=off", "-count=1", "-timeout", "180s", "-run", "TestLz4verifReplay", "."}
	cmd := exec.Command("go", args...)
	cmd.Dir = pkgDir
	cmd.Env = append(os.Environ(), "GOFLAGS=-mod=mod", "GOPROXY=off", "GOSUMDB=off", "GOTOOLCHAIN=local",
		"LZ4VERIF_HARNESS="+harness, "LZ4VERIF_FOCUS="+focus, "LZ4VERIF_SEED="+strconv.Itoa(envInt("VERIF_SEED", 0)), "GOCACHE="+goCache())
	t0 := time.Now()
	out, _ := cmd.CombinedOutput()
	res := fmt.Sprintf("== frame harness %s focus=%q (%.1fs)\n%s\n", harness, focus, time.Since(t0).Seconds(), string(out))
	crashed := strings.Contains(string(out), "goroutine stack exceeds") || strings.Contains(string(out), "fatal error: stack overflow")
	if crashed && len(out) > 6000 {
		out = append(out[:3000], out[len(out)-3000:]...)
	}
	res = fmt.Sprintf("== frame harness %s focus=%q (%.1fs)\n%s\n", harness, focus, time.Since(t0).Seconds(), string(out))
	return res, strings.Contains(string(out), "LZ4VERIF-FAIL") || crashed
}
