package main

// amd64 front end for internal/lz4block/decode_amd64.s (C03, C12).
//
// The Plan 9 source is parsed instruction by instruction and lowered to the same IVL
// as the Go front end. Registers are SMT integers in [0, 2^64) with exact wrap-around
// (the decoder uses no bitwise operation that is not a mask/shift by a constant, so its
// arithmetic is linear; bit-vector encodings of the same obligations stall the solvers on
// carry chains), x86 partial-register rules, the four arithmetic flags, the 48-byte frame
// as named slots. Every memory operand yields an
// obligation that the accessed byte range lies inside dst/src/dict (loads) or inside
// dst[0:len(dst)) (stores), for a universally quantified memory layout. Loaded values
// are unconstrained (any source / destination contents), which over-approximates all
// data-dependent behaviour and is exactly right for memory safety.
//
// The parse is cross-checked on every run against the assembled machine code
// (`go tool objdump` of a freshly built test binary): same number of instructions per
// source line and every jump lands on the source line of its label.

import (
	"fmt"
	"math/big"
	"os"
	"os/exec"
	"path/filepath"
	"regexp"
	"sort"
	"strconv"
	"strings"
)

type asmOperand struct {
	kind  string // reg, imm, mem, fp, sp, sym
	reg   string
	imm   int64
	base  string
	index string
	scale int64
	off   int64
	name  string // fp name
}

type asmInstr struct {
	line  int
	label string // label defined right before this instruction ("" if none)
	mn    string
	ops   []asmOperand
	text  string
}

var asmRegs = map[string]bool{"AX": true, "BX": true, "CX": true, "DX": true, "SI": true, "DI": true, "BP": true,
	"R8": true, "R9": true, "R10": true, "R11": true, "R12": true, "R13": true, "R14": true, "R15": true}

func parseAsmOperand(s string, consts map[string]int64) (asmOperand, error) {
	s = strings.TrimSpace(s)
	num := func(t string) (int64, error) {
		t = strings.TrimSpace(t)
		if strings.HasPrefix(t, "const_") {
			if v, ok := consts[strings.TrimPrefix(t, "const_")]; ok {
				return v, nil
			}
			return 0, fmt.Errorf("unknown constant %s", t)
		}
		return strconv.ParseInt(t, 0, 64)
	}
	if strings.HasPrefix(s, "$") {
		v, err := num(s[1:])
		return asmOperand{kind: "imm", imm: v}, err
	}
	if asmRegs[s] || regexp.MustCompile(`^X[0-9]+$`).MatchString(s) {
		return asmOperand{kind: "reg", reg: s}, nil
	}
	if strings.HasSuffix(s, "(SB)") {
		return asmOperand{kind: "sym", name: strings.TrimSuffix(s, "(SB)")}, nil
	}
	if m := regexp.MustCompile(`^([A-Za-z_][A-Za-z0-9_]*)\+(\d+)\(FP\)$`).FindStringSubmatch(s); m != nil {
		off, _ := strconv.ParseInt(m[2], 10, 64)
		return asmOperand{kind: "fp", name: m[1], off: off}, nil
	}
	if m := regexp.MustCompile(`^(-?[A-Za-z0-9_]*)\((SP)\)$`).FindStringSubmatch(s); m != nil {
		off := int64(0)
		if m[1] != "" {
			var err error
			if off, err = num(m[1]); err != nil {
				return asmOperand{}, err
			}
		}
		return asmOperand{kind: "sp", off: off}, nil
	}
	if m := regexp.MustCompile(`^(-?[A-Za-z0-9_]*)\(([A-Z0-9]+)\)(?:\(([A-Z0-9]+)\*(\d)\))?$`).FindStringSubmatch(s); m != nil {
		op := asmOperand{kind: "mem", base: m[2], index: m[3], scale: 1}
		if m[1] != "" {
			v, err := num(m[1])
			if err != nil {
				return asmOperand{}, err
			}
			op.off = v
		}
		if m[4] != "" {
			op.scale, _ = strconv.ParseInt(m[4], 10, 64)
		}
		if !asmRegs[op.base] {
			return asmOperand{}, fmt.Errorf("bad base register in %q", s)
		}
		return op, nil
	}
	return asmOperand{}, fmt.Errorf("unsupported operand %q", s)
}

func parseAsmFile(path string, consts map[string]int64) ([]asmInstr, error) {
	data, err := os.ReadFile(path)
	if err != nil {
		return nil, err
	}
	var out []asmInstr
	pending := ""
	inText := false
	for i, raw := range strings.Split(string(data), "\n") {
		l := raw
		if k := strings.Index(l, "//"); k >= 0 {
			l = l[:k]
		}
		l = strings.TrimSpace(l)
		if l == "" || strings.HasPrefix(l, "#") {
			continue
		}
		if strings.HasPrefix(l, "TEXT") {
			if !strings.Contains(l, "decodeBlock") {
				return nil, fmt.Errorf("unexpected TEXT %q", l)
			}
			inText = true
			continue
		}
		if !inText {
			continue
		}
		if strings.HasSuffix(l, ":") && !strings.ContainsAny(l, " \t") {
			pending = strings.TrimSuffix(l, ":")
			continue
		}
		f := strings.Fields(l)
		mn := f[0]
		rest := strings.TrimSpace(l[len(mn):])
		in := asmInstr{line: i + 1, label: pending, mn: mn, text: l}
		pending = ""
		if rest != "" {
			if strings.HasPrefix(mn, "J") {
				in.ops = []asmOperand{{kind: "sym", name: rest}}
			} else {
				for _, part := range splitOperands(rest) {
					op, err := parseAsmOperand(part, consts)
					if err != nil {
						return nil, fmt.Errorf("line %d: %v", i+1, err)
					}
					in.ops = append(in.ops, op)
				}
			}
		}
		out = append(out, in)
	}
	return out, nil
}

func splitOperands(s string) []string {
	var out []string
	depth, start := 0, 0
	for i, c := range s {
		switch c {
		case '(':
			depth++
		case ')':
			depth--
		case ',':
			if depth == 0 {
				out = append(out, s[start:i])
				start = i + 1
			}
		}
	}
	return append(out, s[start:])
}

// ---------------------------------------------------------------------

type asmTrans struct {
	proc   *Proc
	cur    *Block
	regs   map[string]*Cell
	flags  map[string]*Cell
	slots  map[int64]*Cell
	params map[string]*Cell
	ret    *Cell
	props  []string
	tmp    int
	labels map[string]*Block
	seq    map[string]int
	curLbl string
	lblOff int
}

func bv64(n int64) Expr { return IntLit(n) }

func p2(w int) Expr { return BigLit(pow2(w)) }

// wrapW brings v (at most one modulus out of range) back into [0, 2^w)
func wrapW(v Expr, w int) Expr {
	return Ite(IGe(v, p2(w)), ISub(v, p2(w)), Ite(ILt(v, IntLit(0)), IAdd(v, p2(w)), v))
}

// signedW: two's-complement reading of a w-bit value
func signedW(v Expr, w int) Expr {
	return Ite(IGe(v, p2(w-1)), ISub(v, p2(w)), v)
}

func (a *asmTrans) reg(name string) *Cell {
	if c, ok := a.regs[name]; ok {
		return c
	}
	c := &Cell{"r$" + name, SInt}
	a.regs[name] = c
	return c
}

func (a *asmTrans) fresh(base string, s Sort) *Cell {
	a.tmp++
	return &Cell{fmt.Sprintf("%s$%d", base, a.tmp), s}
}

func ext(e Expr, from, to int) Expr { return e } // values are non-negative integers: zero extension is the identity
func low(e Expr, w int) Expr {
	if w >= 64 {
		return e
	}
	if n, ok := litInt(e); ok {
		return BigLit(new(big.Int).Mod(n, pow2(w)))
	}
	return mk("mod", SInt, e, p2(w))
}

// [lo, hi) inside the region [base, base+len)  (mathematical integers: no wrap-around)
func (a *asmTrans) inRegion(lo, hi Expr, base, length string) Expr {
	b, l := a.params[base], a.params[length]
	return And(ILe(lo, hi), ILe(b, lo), ILe(hi, IAdd(b, l)))
}

func (a *asmTrans) site(kind string, in asmInstr) string {
	lbl := a.curLbl
	if lbl == "" {
		lbl = "entry"
	}
	return fmt.Sprintf("%s/%s@%s+%d", kind, in.mn, lbl, a.lblOff)
}

func (a *asmTrans) checkLoad(addr Expr, n int64, in asmInstr) {
	hi := IAdd(addr, bv64(n))
	ok := Or(a.inRegion(addr, hi, "src_base", "src_len"), a.inRegion(addr, hi, "dst_base", "dst_len"), a.inRegion(addr, hi, "dict_base", "dict_len"))
	a.cur.Assert(ok, a.site("load", in), a.props)
	a.cur.Cmds[len(a.cur.Cmds)-1].Meta = map[string]string{"pos": fmt.Sprintf("decode_amd64.s:%d", in.line)}
}

func (a *asmTrans) checkStore(addr Expr, n int64, in asmInstr) {
	hi := IAdd(addr, bv64(n))
	a.cur.Assert(a.inRegion(addr, hi, "dst_base", "dst_len"), a.site("store", in), a.props)
	a.cur.Cmds[len(a.cur.Cmds)-1].Meta = map[string]string{"pos": fmt.Sprintf("decode_amd64.s:%d", in.line)}
}

func (a *asmTrans) addrOf(op asmOperand) Expr {
	var e Expr = a.reg(op.base)
	if op.index != "" {
		idx := Expr(a.reg(op.index))
		if op.scale != 1 {
			idx = IMul(idx, bv64(op.scale))
		}
		e = IAdd(e, idx)
	}
	if op.off != 0 {
		e = IAdd(e, bv64(op.off))
	}
	// effective addresses wrap at 2^64
	return mk("mod", SInt, e, p2(64))
}

var fpSlots = map[string]bool{"dst_base": true, "dst_len": true, "dst_cap": true, "src_base": true, "src_len": true, "src_cap": true, "dict_base": true, "dict_len": true, "dict_cap": true, "ret": true}

// read a w-bit source operand (zero-extended semantics left to the caller)
func (a *asmTrans) read(op asmOperand, w int, in asmInstr) Expr {
	switch op.kind {
	case "imm":
		return BigLit(new(big.Int).Mod(big.NewInt(op.imm), pow2(w)))
	case "reg":
		return low(a.reg(op.reg), w)
	case "mem":
		addr := a.addrOf(op)
		a.checkLoad(addr, int64(w/8), in)
		v := a.fresh("ld", SInt)
		a.cur.Havoc(v) // contents of src/dst/dict are arbitrary
		a.cur.Assume(And(ILe(IntLit(0), v), ILt(v, p2(w))))
		return v
	case "sp":
		return low(a.slot(op.off), w)
	case "fp":
		if op.name == "ret" {
			return low(a.ret, w)
		}
		if !fpSlots[op.name] {
			panic(transErr{"unknown FP name " + op.name})
		}
		return low(a.params[op.name], w)
	}
	panic(transErr{"read of operand kind " + op.kind})
}

func (a *asmTrans) slot(off int64) *Cell {
	if off < 0 || off >= 48 || off%8 != 0 {
		panic(transErr{fmt.Sprintf("frame slot %d(SP) outside the 48-byte frame", off)})
	}
	if c, ok := a.slots[off]; ok {
		return c
	}
	c := &Cell{fmt.Sprintf("slot$%d", off), SInt}
	a.slots[off] = c
	return c
}

// write a w-bit value to a destination operand with x86 partial-register rules
func (a *asmTrans) write(op asmOperand, v Expr, w int, in asmInstr) {
	switch op.kind {
	case "reg":
		r := a.reg(op.reg)
		switch w {
		case 64, 128:
			a.cur.Assign(r, v)
		case 32:
			a.cur.Assign(r, ext(v, 32, 64))
		default: // 8/16-bit writes keep the upper bits
			a.cur.Assign(r, IAdd(ISub(r, mk("mod", SInt, r, p2(w))), v))
		}
	case "mem":
		a.checkStore(a.addrOf(op), int64(w/8), in)
	case "sp":
		a.cur.Assign(a.slot(op.off), ext(v, w, 64))
	case "fp":
		if op.name != "ret" {
			panic(transErr{"store to argument " + op.name})
		}
		a.cur.Assign(a.ret, ext(v, w, 64))
	default:
		panic(transErr{"write to operand kind " + op.kind})
	}
}

func (a *asmTrans) setFlagsSub(x, y Expr, w int) {
	d := ISub(signedW(x, w), signedW(y, w)) // exact signed difference
	a.cur.Assign(a.flags["ZF"], Eq(x, y))
	a.cur.Assign(a.flags["CF"], ILt(x, y))
	a.cur.Assign(a.flags["SF"], IGe(wrapW(ISub(x, y), w), p2(w-1)))
	a.cur.Assign(a.flags["OF"], Or(ILt(d, ISub(IntLit(0), p2(w-1))), IGe(d, p2(w-1))))
}

func (a *asmTrans) setFlagsLogic(r Expr, w int) {
	a.cur.Assign(a.flags["ZF"], Eq(r, IntLit(0)))
	a.cur.Assign(a.flags["CF"], False)
	a.cur.Assign(a.flags["OF"], False)
	a.cur.Assign(a.flags["SF"], IGe(r, p2(w-1)))
}

func widthOf(mn string) int {
	switch mn[len(mn)-1] {
	case 'Q':
		return 64
	case 'L':
		return 32
	case 'W':
		return 16
	case 'B':
		return 8
	}
	return 64
}

func (a *asmTrans) cond(mn string) Expr {
	zf, cf, sf, of := Expr(a.flags["ZF"]), Expr(a.flags["CF"]), Expr(a.flags["SF"]), Expr(a.flags["OF"])
	switch mn {
	case "JE", "JEQ", "JZ":
		return zf
	case "JNE", "JNZ":
		return Not(zf)
	case "JB", "JC", "JCS", "JLO":
		return cf
	case "JAE", "JNC", "JCC", "JHS":
		return Not(cf)
	case "JA", "JHI":
		return And(Not(cf), Not(zf))
	case "JBE", "JLS":
		return Or(cf, zf)
	case "JLT", "JL":
		return Not(Eq(sf, of))
	case "JGE":
		return Eq(sf, of)
	case "JGT", "JG":
		return And(Not(zf), Eq(sf, of))
	case "JLE":
		return Or(zf, Not(Eq(sf, of)))
	case "JS", "JMI":
		return sf
	case "JNS", "JPL":
		return Not(sf)
	}
	panic(transErr{"unsupported jump " + mn})
}

// lower one instruction; returns true if control does not fall through
func (a *asmTrans) lower(in asmInstr, next func() *Block, labelBlock func(string) *Block) bool {
	mn := in.mn
	ops := in.ops
	switch {
	case mn == "JMP":
		a.cur.Goto(labelBlock(ops[0].name))
		return true
	case strings.HasPrefix(mn, "J"):
		c := a.cond(mn)
		nb := next()
		a.cur.If(c, labelBlock(ops[0].name), nb)
		a.cur = nb
		return false
	case mn == "RET":
		a.emitRet()
		return true
	case mn == "CALL":
		if !strings.Contains(ops[0].name, "memmove") {
			panic(transErr{"CALL to " + ops[0].name})
		}
		a.memmove(in)
		return false
	}
	switch mn {
	case "MOVQ", "MOVL", "MOVW", "MOVB":
		w := widthOf(mn)
		v := a.read(ops[0], w, in)
		a.write(ops[1], v, w, in)
	case "MOVBLZX", "MOVBQZX":
		a.write(ops[1], ext(a.read(ops[0], 8, in), 8, 64), 64, in)
	case "MOVWLZX", "MOVWQZX":
		a.write(ops[1], ext(a.read(ops[0], 16, in), 16, 64), 64, in)
	case "MOVOU", "MOVDQU", "MOVOA":
		if ops[0].kind == "mem" {
			a.checkLoad(a.addrOf(ops[0]), 16, in)
			v := a.fresh("ld", SInt)
			a.cur.Havoc(v)
			a.cur.Assign(a.reg(ops[1].reg), v)
		} else {
			a.checkStore(a.addrOf(ops[1]), 16, in)
		}
	case "CMOVQCS", "CMOVQCC", "CMOVQEQ", "CMOVQNE":
		c := map[string]Expr{"CMOVQCS": a.flags["CF"], "CMOVQCC": Not(a.flags["CF"]), "CMOVQEQ": a.flags["ZF"], "CMOVQNE": Not(a.flags["ZF"])}[mn]
		if ops[0].kind != "reg" || ops[1].kind != "reg" {
			panic(transErr{"CMOV with a memory operand"})
		}
		a.cur.Assign(a.reg(ops[1].reg), Ite(c, a.reg(ops[0].reg), a.reg(ops[1].reg)))
	case "LEAQ":
		a.cur.Assign(a.reg(ops[1].reg), a.addrOf(ops[0]))
	case "ADDQ", "ADDL":
		w := widthOf(mn)
		x := a.read(ops[1], w, in)
		y := a.read(ops[0], w, in)
		xs := a.fresh("x", SInt)
		a.cur.Assign(xs, x)
		r := a.fresh("sum", SInt)
		a.cur.Assign(r, wrapW(IAdd(xs, y), w))
		a.cur.Assign(a.flags["CF"], IGe(IAdd(xs, y), p2(w)))
		a.cur.Assign(a.flags["ZF"], Eq(r, IntLit(0)))
		a.cur.Assign(a.flags["SF"], IGe(r, p2(w-1)))
		sd := IAdd(signedW(xs, w), signedW(y, w))
		a.cur.Assign(a.flags["OF"], Or(ILt(sd, ISub(IntLit(0), p2(w-1))), IGe(sd, p2(w-1))))
		a.write(ops[1], r, w, in)
	case "SUBQ", "SUBL":
		w := widthOf(mn)
		x := a.read(ops[1], w, in)
		y := a.read(ops[0], w, in)
		xs := a.fresh("x", SInt)
		a.cur.Assign(xs, x)
		a.setFlagsSub(xs, y, w)
		a.write(ops[1], wrapW(ISub(xs, y), w), w, in)
	case "INCQ", "DECQ":
		w := 64
		x := a.read(ops[0], w, in)
		r := a.fresh("incdec", SInt)
		if mn == "DECQ" {
			a.cur.Assign(r, wrapW(ISub(x, IntLit(1)), w))
		} else {
			a.cur.Assign(r, wrapW(IAdd(x, IntLit(1)), w))
		}
		a.cur.Assign(a.flags["ZF"], Eq(r, bv64(0)))
		a.cur.Assign(a.flags["SF"], IGe(r, p2(w-1)))
		a.cur.Havoc(a.flags["OF"]) // not used by this code; CF is unchanged
		a.write(ops[0], r, w, in)
	case "CMPQ", "CMPL", "CMPW", "CMPB":
		w := widthOf(mn)
		a.setFlagsSub(a.read(ops[0], w, in), a.read(ops[1], w, in), w)
	case "TESTQ", "TESTL":
		w := widthOf(mn)
		if !(ops[0].kind == "reg" && ops[1].kind == "reg" && ops[0].reg == ops[1].reg) {
			panic(transErr{"TEST of two different operands"})
		}
		a.setFlagsLogic(a.read(ops[0], w, in), w)
	case "ANDL", "ANDQ":
		w := widthOf(mn)
		if ops[0].kind != "imm" {
			panic(transErr{"AND with a non-constant mask"})
		}
		k, ok := isPow2(big.NewInt(ops[0].imm + 1))
		if !ok {
			panic(transErr{"AND with a mask that is not 2^k-1"})
		}
		rs := a.fresh("and", SInt)
		a.cur.Assign(rs, mk("mod", SInt, a.read(ops[1], w, in), p2(k)))
		a.setFlagsLogic(rs, w)
		a.write(ops[1], rs, w, in)
	case "XORL", "XORQ":
		w := widthOf(mn)
		if !(ops[0].kind == "reg" && ops[1].kind == "reg" && ops[0].reg == ops[1].reg) {
			panic(transErr{"XOR of two different operands"})
		}
		a.setFlagsLogic(IntLit(0), w)
		a.write(ops[1], IntLit(0), w, in)
	case "SHRL", "SHRQ":
		w := widthOf(mn)
		if ops[0].kind != "imm" {
			panic(transErr{"variable shift"})
		}
		rs := a.fresh("shr", SInt)
		a.cur.Assign(rs, mk("div", SInt, a.read(ops[1], w, in), p2(int(ops[0].imm))))
		a.cur.Assign(a.flags["ZF"], Eq(rs, IntLit(0)))
		a.cur.Assign(a.flags["SF"], IGe(rs, p2(w-1)))
		a.cur.Havoc(a.flags["CF"])
		a.cur.Havoc(a.flags["OF"])
		a.write(ops[1], rs, w, in)
	default:
		panic(transErr{fmt.Sprintf("unsupported instruction %q (line %d)", in.text, in.line)})
	}
	return false
}

// memmove(to, from, n) through the ABI0 wrapper: arguments in 0/8/16(SP); clobbers every
// register; the caller's other frame slots are preserved (assumed of the wrapper).
func (a *asmTrans) memmove(in asmInstr) {
	to, from, n := a.slot(0), a.slot(8), a.slot(16)
	toHi := IAdd(to, n)
	fromHi := IAdd(from, n)
	zero := Eq(n, bv64(0))
	a.cur.Assert(Or(zero, a.inRegion(to, toHi, "dst_base", "dst_len")), a.site("store/memmove-to", in), a.props)
	a.cur.Cmds[len(a.cur.Cmds)-1].Meta = map[string]string{"pos": fmt.Sprintf("decode_amd64.s:%d", in.line)}
	a.cur.Assert(Or(zero, a.inRegion(from, fromHi, "src_base", "src_len"), a.inRegion(from, fromHi, "dst_base", "dst_len"), a.inRegion(from, fromHi, "dict_base", "dict_len")), a.site("load/memmove-from", in), a.props)
	a.cur.Cmds[len(a.cur.Cmds)-1].Meta = map[string]string{"pos": fmt.Sprintf("decode_amd64.s:%d", in.line)}
	names := make([]string, 0, len(a.regs))
	for r := range a.regs {
		names = append(names, r)
	}
	sort.Strings(names)
	for _, r := range names {
		a.cur.Havoc(a.regs[r])
	}
	for _, f := range []string{"ZF", "CF", "SF", "OF"} {
		a.cur.Havoc(a.flags[f])
	}
	// the three argument slots belong to the callee's argument area
	a.cur.Havoc(a.slot(0))
	a.cur.Havoc(a.slot(8))
}

func (a *asmTrans) emitRet() {
	// postcondition: a negative value, or 0 <= ret <= len(dst)
	a.cur.Cmds = append(a.cur.Cmds, Cmd{Kind: CAssert, E: False, Name: "canary/return", ExpectSat: true, Props: a.props})
	post := Or(IGe(a.ret, p2(63)), ILe(a.ret, a.params["dst_len"])) // negative as int, or 0 <= ret <= len(dst)
	a.cur.Assert(post, "ensures/result", a.props)
}

// asm contract expressions: mathematical integers over registers (values in [0,2^64)) and the argument words
func (a *asmTrans) spec(e SExpr) Expr {
	switch x := e.(type) {
	case *SNum:
		return BigLit(x.V)
	case *SBoolLit:
		if x.V {
			return True
		}
		return False
	case *SIdent:
		if c, ok := a.params[x.Name]; ok {
			return c
		}
		if asmRegs[x.Name] {
			return a.reg(x.Name)
		}
		if x.Name == "ret" {
			return a.ret
		}
		panic(transErr{"asm contract: unknown identifier " + x.Name})
	case *SUn:
		if x.Op == "!" {
			return Not(a.spec(x.X))
		}
	case *SBin:
		switch x.Op {
		case "&&":
			return And(a.spec(x.X), a.spec(x.Y))
		case "||":
			return Or(a.spec(x.X), a.spec(x.Y))
		case "==>":
			return Implies(a.spec(x.X), a.spec(x.Y))
		}
		l, r := a.spec(x.X), a.spec(x.Y)
		switch x.Op {
		case "+":
			return IAdd(l, r)
		case "-":
			return ISub(l, r)
		case "==":
			return Eq(l, r)
		case "!=":
			return Not(Eq(l, r))
		case "<":
			return ILt(l, r)
		case "<=":
			return ILe(l, r)
		case ">":
			return IGt(l, r)
		case ">=":
			return IGe(l, r)
		}
	}
	panic(transErr{fmt.Sprintf("asm contract: unsupported expression %#v", e)})
}

// ---------------------------------------------------------------------

func asmContractFor(e *Engine) *FuncContract { return e.contracts["lz4block.asm.decodeBlock"] }

func asmObligations(e *Engine, prop string, scratch string) ([]*Obligation, asmInfoT, string) {
	var info asmInfoT
	fc := asmContractFor(e)
	if fc == nil || !hasProp(fc.Props, prop) {
		return nil, info, ""
	}
	obls, n, err := asmTranslate(e, fc, scratch)
	if err != nil {
		return nil, info, err.Error()
	}
	info.functions = []string{"lz4block.decodeBlock (decode_amd64.s, " + strconv.Itoa(n) + " instructions)"}
	info.instructions = n
	info.assumptions = []string{
		"amd64: instruction semantics of the 25 mnemonics used (lz4verif's model), Plan 9 operand order, ABI0 frame layout",
		"amd64: runtime.memmove copies n bytes and preserves the caller's frame slots 16..47(SP)",
		"amd64: each slice's base+len does not wrap and is below 2^47; a slice's base is nil (0, with cap 0) or >= 4096",
		"amd64: loaded bytes are unconstrained (sound for memory safety; says nothing about the decoded values)",
	}
	var out []*Obligation
	for _, o := range obls {
		if o.ExpectSat || hasProp(o.Props, prop) {
			out = append(out, o)
		}
	}
	return out, info, ""
}

func asmTranslate(e *Engine, fc *FuncContract, scratch string) (obls []*Obligation, n int, err error) {
	defer func() {
		if r := recover(); r != nil {
			if te, ok := r.(transErr); ok {
				err = fmt.Errorf("%s", te.msg)
				return
			}
			panic(r)
		}
	}()
	src := filepath.Join(e.repo, "internal/lz4block/decode_amd64.s")
	consts := map[string]int64{}
	if pkg := e.findPackage("lz4block"); pkg != nil {
		for _, name := range pkg.Scope().Names() {
			if c, ok := pkg.Scope().Lookup(name).(interface{ Val() interface{ ExactString() string } }); ok {
				_ = c
			}
		}
		if obj := pkg.Scope().Lookup("minMatch"); obj != nil {
			if c, ok := obj.(interface {
				Val() interface{ ExactString() string }
			}); ok {
				_ = c
			}
		}
	}
	consts["minMatch"] = constInt(e, "lz4block", "minMatch")
	instrs, perr := parseAsmFile(src, consts)
	if perr != nil {
		return nil, 0, perr
	}
	if cerr := crossCheckObjdump(e, instrs, scratch); cerr != nil {
		return nil, 0, fmt.Errorf("source/objdump cross-check: %v", cerr)
	}
	a := &asmTrans{regs: map[string]*Cell{}, flags: map[string]*Cell{}, slots: map[int64]*Cell{}, params: map[string]*Cell{}, props: fc.Props, labels: map[string]*Block{}, seq: map[string]int{}}
	a.proc = &Proc{Name: "asm.decodeBlock", Props: fc.Props}
	a.proc.RangeFact = func(c *Cell) Expr {
		if c.S == SInt && (strings.HasPrefix(c.Name, "r$") || strings.HasPrefix(c.Name, "slot$") || c.Name == "arg$ret") {
			if strings.HasPrefix(c.Name, "r$X") {
				return nil
			}
			return And(ILe(IntLit(0), c), ILt(c, p2(64)))
		}
		return nil
	}
	entry := a.proc.NewBlock("entry")
	a.proc.Entry = entry
	a.cur = entry
	for _, f := range []string{"ZF", "CF", "SF", "OF"} {
		a.flags[f] = &Cell{"f$" + f, SBool}
		entry.Havoc(a.flags[f])
	}
	for _, p := range []string{"dst_base", "dst_len", "dst_cap", "src_base", "src_len", "src_cap", "dict_base", "dict_len", "dict_cap"} {
		c := &Cell{"arg$" + p, SInt}
		a.params[p] = c
		entry.Havoc(c)
		entry.Assume(And(ILe(IntLit(0), c), ILt(c, p2(64))))
	}
	a.ret = &Cell{"arg$ret", SInt}
	entry.Havoc(a.ret)
	// registers used anywhere: unconstrained on entry
	for _, in := range instrs {
		for _, op := range in.ops {
			for _, r := range []string{op.reg, op.base, op.index} {
				if r != "" && r != "SP" {
					a.reg(r)
				}
			}
		}
	}
	rnames := make([]string, 0, len(a.regs))
	for r := range a.regs {
		rnames = append(rnames, r)
	}
	sort.Strings(rnames)
	for _, r := range rnames {
		entry.Havoc(a.regs[r])
	}
	for off := int64(0); off < 48; off += 8 {
		entry.Havoc(a.slot(off))
	}
	// slice well-formedness (address-space assumptions, listed in the evidence)
	lim := p2(47)
	for _, s := range []string{"dst", "src", "dict"} {
		b, l, c := a.params[s+"_base"], a.params[s+"_len"], a.params[s+"_cap"]
		entry.Assume(And(ILe(l, c), ILt(c, lim), ILt(b, lim),
			Implies(Eq(b, bv64(0)), Eq(c, bv64(0))),
			Or(Eq(b, bv64(0)), IGe(b, bv64(4096)))))
	}
	for _, r := range fc.Requires {
		entry.Assume(a.spec(r.E))
	}
	// blocks per label
	for _, in := range instrs {
		if in.label != "" {
			a.labels[in.label] = a.proc.NewBlock(in.label)
		}
	}
	labelBlock := func(name string) *Block {
		b, ok := a.labels[name]
		if !ok {
			panic(transErr{"stale-contract: jump to unknown label " + name})
		}
		return b
	}
	terminated := false
	usedAsserts := map[string]bool{}
	for _, in := range instrs {
		if in.label != "" {
			lb := a.labels[in.label]
			if !terminated {
				a.cur.Goto(lb)
			}
			a.cur = lb
			a.curLbl, a.lblOff = in.label, 0
			terminated = false
		} else if terminated {
			// unreachable instruction after an unconditional transfer
			a.cur = a.proc.NewBlock("dead")
			terminated = false
		}
		a.lblOff++
		// proof hints: `assert φ @ label+k` is checked (and then known) before the k-th instruction after label
		site := fmt.Sprintf("%s+%d", a.curLbl, a.lblOff)
		for _, as := range fc.Asserts {
			if as.Site == site {
				usedAsserts[as.Label] = true
				a.cur.Assert(a.spec(as.E), "assert/"+as.Label, propsOr(as.Props, fc.Props))
				a.cur.Cmds[len(a.cur.Cmds)-1].Meta = map[string]string{"pos": fmt.Sprintf("decode_amd64.s:%d", in.line)}
			}
		}
		next := func() *Block { return a.proc.NewBlock(fmt.Sprintf("%s+%d", a.curLbl, a.lblOff)) }
		terminated = a.lower(in, next, labelBlock)
		n++
	}
	if !terminated {
		panic(transErr{"function falls off its end"})
	}
	for _, as := range fc.Asserts {
		if !usedAsserts[as.Label] {
			panic(transErr{"stale-contract: assert " + as.Label + ": site " + as.Site + " not found"})
		}
	}
	// loop invariants by label
	ord := 0
	for _, in := range instrs {
		if in.label == "" {
			continue
		}
		lc := fc.AsmLabels[in.label]
		if lc == nil {
			continue
		}
		ord++
		ls := &LoopSpec{Ordinal: ord, Props: fc.Props, FullCut: true, CutName: in.label}
		for _, inv := range lc.Invs {
			ls.Invs = append(ls.Invs, NamedExpr{inv.Label, a.spec(inv.E), propsOr(inv.Props, fc.Props)})
		}
		a.labels[in.label].Loop = ls
	}
	for l := range fc.AsmLabels {
		if _, ok := a.labels[l]; !ok {
			panic(transErr{"stale-contract: contract for unknown label " + l})
		}
	}
	a.proc.NoHavoc = map[string]bool{}
	for _, c := range a.params {
		a.proc.NoHavoc[c.Name] = true
	}
	prelude := []string{}
	o, gerr := GenVCs(a.proc, prelude)
	if gerr != nil {
		return nil, n, gerr
	}
	return o, n, nil
}

func constInt(e *Engine, pkg, name string) int64 {
	p := e.findPackage(pkg)
	if p == nil {
		return 0
	}
	obj := p.Scope().Lookup(name)
	if obj == nil {
		return 0
	}
	type valuer interface{ Val() interface{ ExactString() string } }
	s := fmt.Sprint(obj)
	// "const pkg.name untyped int = 4"
	if i := strings.LastIndex(s, "= "); i >= 0 {
		v, _ := strconv.ParseInt(strings.TrimSpace(s[i+2:]), 0, 64)
		return v
	}
	return 0
}

// crossCheckObjdump builds the package's test binary from the working tree and checks the
// parsed source against the machine code: per source line the same number of instructions
// (prologue/epilogue expansion aside) and every jump lands on the line of its label.
func crossCheckObjdump(e *Engine, instrs []asmInstr, scratch string) error {
	bin := filepath.Join(scratch, "lz4block.test")
	cmd := exec.Command("go", "test", "-c", "-o", bin, "./internal/lz4block")
	cmd.Dir = e.repo
	cmd.Env = append(os.Environ(), "GOFLAGS=-mod=mod", "GOPROXY=off", "GOSUMDB=off", "GOTOOLCHAIN=local")
	if out, err := cmd.CombinedOutput(); err != nil {
		return fmt.Errorf("go test -c: %v: %s", err, truncate(string(out), 400))
	}
	defer os.Remove(bin)
	out, err := exec.Command("go", "tool", "objdump", "-s", `lz4block\.decodeBlock`, bin).Output()
	if err != nil {
		return fmt.Errorf("objdump: %v", err)
	}
	type od struct {
		line   int
		addr   uint64
		mn     string
		target uint64
	}
	var ods []od
	re := regexp.MustCompile(`^\s*decode_amd64\.s:(\d+)\s+0x([0-9a-f]+)\s+[0-9a-f]+\s+([A-Z0-9]+)\s*(.*)$`)
	for _, l := range strings.Split(string(out), "\n") {
		m := re.FindStringSubmatch(l)
		if m == nil {
			continue
		}
		line, _ := strconv.Atoi(m[1])
		addr, _ := strconv.ParseUint(m[2], 16, 64)
		o := od{line: line, addr: addr, mn: m[3]}
		if strings.HasPrefix(m[3], "J") {
			t := strings.TrimSpace(m[4])
			if strings.HasPrefix(t, "0x") {
				o.target, _ = strconv.ParseUint(t[2:], 16, 64)
			}
		}
		ods = append(ods, o)
	}
	if len(ods) == 0 {
		return fmt.Errorf("no instructions of decodeBlock in the objdump output")
	}
	byLine := map[int][]od{}
	lineOfAddr := map[uint64]int{}
	for _, o := range ods {
		byLine[o.line] = append(byLine[o.line], o)
		lineOfAddr[o.addr] = o.line
	}
	labelLine := map[string]int{}
	for _, in := range instrs {
		if in.label != "" {
			labelLine[in.label] = in.line
		}
	}
	srcByLine := map[int][]asmInstr{}
	for _, in := range instrs {
		srcByLine[in.line] = append(srcByLine[in.line], in)
	}
	for line, srcs := range srcByLine {
		got := byLine[line]
		want := len(srcs)
		for _, s := range srcs {
			if s.mn == "RET" {
				want += 2 // ADDQ $frame, SP; POPQ BP
			}
		}
		if len(got) != want {
			return fmt.Errorf("line %d: %d source instruction(s) but %d machine instruction(s)", line, len(srcs), len(got))
		}
		for _, s := range srcs {
			if strings.HasPrefix(s.mn, "J") {
				var j *od
				for k := range got {
					if strings.HasPrefix(got[k].mn, "J") {
						j = &got[k]
					}
				}
				if j == nil {
					return fmt.Errorf("line %d: jump not found in machine code", line)
				}
				if tl, ok := lineOfAddr[j.target]; !ok || tl != labelLine[s.ops[0].name] {
					return fmt.Errorf("line %d: jump to %s lands on line %d, label is on line %d", line, s.ops[0].name, tl, labelLine[s.ops[0].name])
				}
			}
		}
	}
	// every machine instruction belongs to a parsed source line (or the TEXT line's prologue)
	for line := range byLine {
		if _, ok := srcByLine[line]; !ok && len(byLine[line]) != 3 {
			return fmt.Errorf("machine instructions on line %d have no parsed source instruction", line)
		}
	}
	return nil
}
