package main

// Mapping of Go types and operators to SMT terms, in two theories:
//   int: SMT Int with exact wrap-around (never "mathematical" machine ints)
//   bv : SMT bit-vectors of the Go width

import (
	"fmt"
	"go/constant"
	"go/token"
	"go/types"
	"math/big"
)

// named32: int theory in which the wrapping uint32 operations are applications of the functions
// u32.add / u32.sub / u32.mul / u32.rolK (defined by axioms in the prelude) instead of inline
// arithmetic, so that a code term and a spec term over equal operands are equal by congruence.
type Theory struct {
	bv      bool
	named32 bool
	lemmas  map[string]bool // lemmas of the spec libraries this function's obligations may use
}

func (th Theory) Addr() Sort {
	if th.bv {
		return BV(64)
	}
	return SInt
}
func (th Theory) SliceSort() Sort {
	if th.bv {
		return "SliceBV"
	}
	return "Slice"
}

func intInfo(t types.Type) (width int, signed bool, ok bool) {
	b, isb := t.Underlying().(*types.Basic)
	if !isb {
		return 0, false, false
	}
	switch b.Kind() {
	case types.Int8:
		return 8, true, true
	case types.Int16:
		return 16, true, true
	case types.Int32:
		return 32, true, true
	case types.Int64, types.Int:
		return 64, true, true
	case types.Uint8:
		return 8, false, true
	case types.Uint16:
		return 16, false, true
	case types.Uint32:
		return 32, false, true
	case types.Uint64, types.Uint, types.Uintptr:
		return 64, false, true
	case types.UntypedInt, types.UntypedRune:
		return 64, true, true
	}
	return 0, false, false
}

func (th Theory) SortOf(t types.Type) Sort {
	switch u := t.Underlying().(type) {
	case *types.Basic:
		if w, _, ok := intInfo(t); ok {
			if th.bv {
				return BV(w)
			}
			return SInt
		}
		switch u.Kind() {
		case types.Bool, types.UntypedBool:
			return SBool
		case types.String, types.UntypedString:
			return th.Addr()
		case types.UntypedNil, types.UnsafePointer:
			return th.Addr()
		}
	case *types.Slice:
		return th.SliceSort()
	case *types.Pointer, *types.Interface, *types.Signature, *types.Chan, *types.Map:
		return th.Addr()
	case *types.Struct:
		return th.Addr() // struct values are (immutable snapshot) object ids
	case *types.Array:
		return ArrayOf(th.Addr(), th.SortOf(u.Elem()))
	case *types.Tuple:
		return "Tuple"
	}
	panic(fmt.Sprintf("SortOf: unsupported type %s", t))
}

func (th Theory) AddrLit(n int64) Expr {
	if th.bv {
		return BVLit(big.NewInt(n), 64)
	}
	return IntLit(n)
}

func (th Theory) IntConst(v *big.Int, t types.Type) Expr {
	if th.bv {
		w, _, _ := intInfo(t)
		return BVLit(v, w)
	}
	return BigLit(v)
}

func (th Theory) Zero(t types.Type) Expr {
	switch u := t.Underlying().(type) {
	case *types.Basic:
		if _, _, ok := intInfo(t); ok {
			return th.IntConst(big.NewInt(0), t)
		}
		if u.Kind() == types.Bool {
			return False
		}
		return th.AddrLit(0)
	case *types.Slice:
		return th.MkSlice(th.AddrLit(0), th.AddrLit(0), th.AddrLit(0))
	case *types.Array:
		return mk("(as const "+string(th.SortOf(t))+")", th.SortOf(t), th.Zero(u.Elem()))
	}
	return th.AddrLit(0)
}

func (th Theory) MkSlice(p, l, c Expr) Expr {
	if th.bv {
		return mk("mk-slicebv", "SliceBV", p, l, c)
	}
	return mk("mk-slice", "Slice", p, l, c)
}
func (th Theory) SPtr(s Expr) Expr {
	if a, ok := s.(*App); ok && (a.Op == "mk-slice" || a.Op == "mk-slicebv") {
		return a.Args[0]
	}
	if th.bv {
		return mk("sb-ptr", BV(64), s)
	}
	return mk("s-ptr", SInt, s)
}
func (th Theory) SLen(s Expr) Expr {
	if a, ok := s.(*App); ok && (a.Op == "mk-slice" || a.Op == "mk-slicebv") {
		return a.Args[1]
	}
	if th.bv {
		return mk("sb-len", BV(64), s)
	}
	return mk("s-len", SInt, s)
}
func (th Theory) SCap(s Expr) Expr {
	if a, ok := s.(*App); ok && (a.Op == "mk-slice" || a.Op == "mk-slicebv") {
		return a.Args[2]
	}
	if th.bv {
		return mk("sb-cap", BV(64), s)
	}
	return mk("s-cap", SInt, s)
}

// address arithmetic / comparisons (addresses, lengths: non-negative, < 2^63)
func (th Theory) AAdd(a, b Expr) Expr {
	if th.bv {
		return mk("bvadd", BV(64), a, b)
	}
	return IAdd(a, b)
}
// AIdx: address of element i of a sequence starting at base. In the int theory this is
// the function idx (axiom: idx(b,i) = b+i) so that quantified contract clauses over
// X[j] have a trigger in which the bound variable occurs bare.
func (th Theory) AIdx(base, i Expr) Expr {
	if th.bv {
		return mk("bvadd", BV(64), base, i)
	}
	if n, ok := litInt(i); ok && n.Sign() == 0 {
		return base
	}
	return mk("idx", SInt, base, i)
}

func (th Theory) ASub(a, b Expr) Expr {
	if th.bv {
		return mk("bvsub", BV(64), a, b)
	}
	return ISub(a, b)
}
func (th Theory) ALe(a, b Expr) Expr {
	if th.bv {
		return mk("bvule", SBool, a, b)
	}
	return ILe(a, b)
}
func (th Theory) ALt(a, b Expr) Expr {
	if th.bv {
		return mk("bvult", SBool, a, b)
	}
	return ILt(a, b)
}
func (th Theory) SLe(a, b Expr) Expr { // signed
	if th.bv {
		return mk("bvsle", SBool, a, b)
	}
	return ILe(a, b)
}
func (th Theory) SLt(a, b Expr) Expr {
	if th.bv {
		return mk("bvslt", SBool, a, b)
	}
	return ILt(a, b)
}

// Range returns the type invariant of an integer value in the int theory.
func (th Theory) Range(e Expr, t types.Type) Expr {
	if th.bv {
		return nil
	}
	w, signed, ok := intInfo(t)
	if !ok {
		return nil
	}
	if signed {
		return And(ILe(BigLit(new(big.Int).Neg(pow2(w-1))), e), ILt(e, BigLit(pow2(w-1))))
	}
	return And(ILe(IntLit(0), e), ILt(e, BigLit(pow2(w))))
}

// wrap brings a mathematical result back into the range of t (exact two's
// complement). lo/hi tell how far the result can be out of range: 1 means at
// most one modulus away (add/sub of in-range operands), 0 means unknown.
func (th Theory) wrap(e Expr, t types.Type, oneStep bool) Expr {
	w, signed, _ := intInfo(t)
	m := BigLit(pow2(w))
	if n, ok := litInt(e); ok {
		v := new(big.Int).Mod(n, pow2(w))
		if signed && v.Cmp(pow2(w-1)) >= 0 {
			v.Sub(v, pow2(w))
		}
		return BigLit(v)
	}
	if oneStep {
		if signed {
			h := BigLit(pow2(w - 1))
			nh := BigLit(new(big.Int).Neg(pow2(w - 1)))
			return Ite(IGe(e, h), ISub(e, m), Ite(ILt(e, nh), IAdd(e, m), e))
		}
		return Ite(IGe(e, m), ISub(e, m), Ite(ILt(e, IntLit(0)), IAdd(e, m), e))
	}
	if signed {
		h := BigLit(pow2(w - 1))
		return ISub(mk("mod", SInt, IAdd(e, h), m), h)
	}
	return mk("mod", SInt, e, m)
}

func isPow2(n *big.Int) (int, bool) {
	if n.Sign() <= 0 {
		return 0, false
	}
	k := n.BitLen() - 1
	if new(big.Int).Lsh(big.NewInt(1), uint(k)).Cmp(n) == 0 {
		return k, true
	}
	return 0, false
}

// BinOp translates x op y where both operands have Go type t (shifts: y may
// have another unsigned type ty).
func (th Theory) BinOp(op token.Token, x, y Expr, t, ty types.Type, fresh func(string, Sort) Expr) (res Expr, side []Expr, err error) {
	w, signed, isInt := intInfo(t)
	if !isInt {
		// bool / pointer comparisons
		switch op {
		case token.EQL:
			return Eq(x, y), nil, nil
		case token.NEQ:
			return Not(Eq(x, y)), nil, nil
		case token.LAND:
			return And(x, y), nil, nil
		case token.LOR:
			return Or(x, y), nil, nil
		}
		return nil, nil, fmt.Errorf("binop %s on non-integer type %s", op, t)
	}
	if th.bv {
		s := BV(w)
		sh := func(y Expr) Expr { // adapt shift count width
			yw := y.Sort().BVWidth()
			if yw == w {
				return y
			}
			if yw < w {
				return mk(fmt.Sprintf("(_ zero_extend %d)", w-yw), s, y)
			}
			// clamp: if y >= w then w else y  (shift by >= w gives 0 / sign)
			return Ite(mk("bvuge", SBool, y, BVLit64(uint64(w), yw)), BVLit64(uint64(w), w), mk(fmt.Sprintf("(_ extract %d 0)", w-1), s, y))
		}
		switch op {
		case token.ADD:
			return mk("bvadd", s, x, y), nil, nil
		case token.SUB:
			return mk("bvsub", s, x, y), nil, nil
		case token.MUL:
			return mk("bvmul", s, x, y), nil, nil
		case token.QUO:
			if signed {
				return mk("bvsdiv", s, x, y), nil, nil
			}
			return mk("bvudiv", s, x, y), nil, nil
		case token.REM:
			if signed {
				return mk("bvsrem", s, x, y), nil, nil
			}
			return mk("bvurem", s, x, y), nil, nil
		case token.AND:
			return mk("bvand", s, x, y), nil, nil
		case token.OR:
			return mk("bvor", s, x, y), nil, nil
		case token.XOR:
			return mk("bvxor", s, x, y), nil, nil
		case token.AND_NOT:
			return mk("bvand", s, x, mk("bvnot", s, y)), nil, nil
		case token.SHL:
			return mk("bvshl", s, x, sh(y)), nil, nil
		case token.SHR:
			if signed {
				return mk("bvashr", s, x, sh(y)), nil, nil
			}
			return mk("bvlshr", s, x, sh(y)), nil, nil
		case token.EQL:
			return Eq(x, y), nil, nil
		case token.NEQ:
			return Not(Eq(x, y)), nil, nil
		case token.LSS:
			if signed {
				return mk("bvslt", SBool, x, y), nil, nil
			}
			return mk("bvult", SBool, x, y), nil, nil
		case token.LEQ:
			if signed {
				return mk("bvsle", SBool, x, y), nil, nil
			}
			return mk("bvule", SBool, x, y), nil, nil
		case token.GTR:
			if signed {
				return mk("bvsgt", SBool, x, y), nil, nil
			}
			return mk("bvugt", SBool, x, y), nil, nil
		case token.GEQ:
			if signed {
				return mk("bvsge", SBool, x, y), nil, nil
			}
			return mk("bvuge", SBool, x, y), nil, nil
		}
		return nil, nil, fmt.Errorf("bv binop %s", op)
	}
	// ---- int theory ----
	yc, yIsConst := litInt(y)
	_, xIsConst := litInt(x)
	if th.named32 && w == 32 && !signed {
		switch op {
		case token.ADD:
			return mk("u32.add", SInt, x, y), nil, nil
		case token.SUB:
			return mk("u32.sub", SInt, x, y), nil, nil
		case token.MUL:
			if yIsConst || xIsConst {
				return mk("u32.mul", SInt, x, y), nil, nil
			}
		}
	}
	switch op {
	case token.ADD:
		return th.wrap(IAdd(x, y), t, true), nil, nil
	case token.SUB:
		return th.wrap(ISub(x, y), t, true), nil, nil
	case token.MUL:
		if yIsConst || xIsConst {
			return th.wrap(IMul(x, y), t, false), nil, nil
		}
		// non-linear: uninterpreted product with sign facts
		return th.wrap(mk("*", SInt, x, y), t, false), nil, nil
	case token.QUO:
		if yIsConst && yc.Sign() > 0 {
			if signed {
				// Go truncates toward zero
				return Ite(IGe(x, IntLit(0)), mk("div", SInt, x, y), mk("-", SInt, mk("div", SInt, mk("-", SInt, x), y))), nil, nil
			}
			return mk("div", SInt, x, y), nil, nil
		}
		if !signed {
			return mk("div", SInt, x, y), nil, nil
		}
		// signed, variable divisor: truncation toward zero
		q := Ite(IGe(x, IntLit(0)),
			Ite(IGt(y, IntLit(0)), mk("div", SInt, x, y), mk("-", SInt, mk("div", SInt, x, mk("-", SInt, y)))),
			Ite(IGt(y, IntLit(0)), mk("-", SInt, mk("div", SInt, mk("-", SInt, x), y)), mk("div", SInt, mk("-", SInt, x), mk("-", SInt, y))))
		return th.wrap(q, t, true), nil, nil
	case token.REM:
		if !signed {
			return mk("mod", SInt, x, y), nil, nil
		}
		if yIsConst && yc.Sign() > 0 {
			return Ite(IGe(x, IntLit(0)), mk("mod", SInt, x, y), mk("-", SInt, mk("mod", SInt, mk("-", SInt, x), y))), nil, nil
		}
		ay := Ite(IGe(y, IntLit(0)), y, mk("-", SInt, y))
		return Ite(IGe(x, IntLit(0)), mk("mod", SInt, x, ay), mk("-", SInt, mk("mod", SInt, mk("-", SInt, x), ay))), nil, nil
	case token.SHL:
		if yIsConst {
			k := int(yc.Int64())
			if k >= w {
				return IntLit(0), nil, nil
			}
			return th.wrap(IMul(x, BigLit(pow2(k))), t, false), nil, nil
		}
		// variable shift: 2^y as uninterpreted pow2 with table for 0..w
		p := th.pow2Table(y, w)
		return th.wrap(mk("*", SInt, x, p), t, false), nil, nil
	case token.SHR:
		if yIsConst {
			k := int(yc.Int64())
			if k >= w {
				if signed {
					return Ite(ILt(x, IntLit(0)), IntLit(-1), IntLit(0)), nil, nil
				}
				return IntLit(0), nil, nil
			}
			return mk("div", SInt, x, BigLit(pow2(k))), nil, nil // floor division == arithmetic shift
		}
		p := th.pow2Table(y, w)
		return mk("div", SInt, x, p), nil, nil
	case token.AND:
		if yIsConst {
			if k, ok := isPow2(new(big.Int).Add(yc, big.NewInt(1))); ok {
				return mk("mod", SInt, x, BigLit(pow2(k))), nil, nil
			}
			// mask of the form 2^a * (2^b - 1): (x div 2^a mod 2^b) * 2^a
			if a, b, ok := shiftedMask(yc); ok {
				return IMul(mk("mod", SInt, mk("div", SInt, x, BigLit(pow2(a))), BigLit(pow2(b))), BigLit(pow2(a))), nil, nil
			}
		}
		if xIsConst {
			return th.BinOp(op, y, x, t, ty, fresh)
		}
		r := mk("bit.and", SInt, x, y)
		// sound approximation for non-negative operands: 0 <= r <= min(x,y)
		side = append(side, Implies(And(IGe(x, IntLit(0)), IGe(y, IntLit(0))), And(IGe(r, IntLit(0)), ILe(r, x), ILe(r, y))))
		side = append(side, th.Range(r, t))
		return r, side, nil
	case token.AND_NOT:
		if yIsConst {
			if k, ok := isPow2(new(big.Int).Add(yc, big.NewInt(1))); ok {
				return ISub(x, mk("mod", SInt, x, BigLit(pow2(k)))), nil, nil
			}
			if a, b, ok := shiftedMask(yc); ok {
				// clear bits a..a+b-1
				fld := IMul(mk("mod", SInt, mk("div", SInt, x, BigLit(pow2(a))), BigLit(pow2(b))), BigLit(pow2(a)))
				return ISub(x, fld), nil, nil
			}
		}
		r := mk("bit.andnot", SInt, x, y)
		side = append(side, Implies(And(IGe(x, IntLit(0)), IGe(y, IntLit(0))), And(IGe(r, IntLit(0)), ILe(r, x))))
		side = append(side, th.Range(r, t))
		return r, side, nil
	case token.OR, token.XOR:
		var r Expr
		if op == token.OR {
			r = mk("bit.or", SInt, x, y)
		} else {
			r = mk("bit.xor", SInt, x, y)
		}
		side = append(side, th.Range(r, t))
		if op == token.OR {
			// disjoint-bits lemma: low k bits only in x, none of them in y  =>  x|y == x+y
			for _, k := range []int{4, 8, 16, 24} {
				if k >= w {
					break
				}
				m := BigLit(pow2(k))
				side = append(side, Implies(And(IGe(x, IntLit(0)), ILt(x, m), IGe(y, IntLit(0)), Eq(mk("mod", SInt, y, m), IntLit(0))), Eq(r, IAdd(x, y))))
				side = append(side, Implies(And(IGe(y, IntLit(0)), ILt(y, m), IGe(x, IntLit(0)), Eq(mk("mod", SInt, x, m), IntLit(0))), Eq(r, IAdd(x, y))))
			}
			side = append(side, Implies(Eq(x, IntLit(0)), Eq(r, y)), Implies(Eq(y, IntLit(0)), Eq(r, x)))
			side = append(side, Implies(And(IGe(x, IntLit(0)), IGe(y, IntLit(0))), And(IGe(r, x), IGe(r, y), ILe(r, IAdd(x, y)))))
		} else {
			side = append(side, Implies(Eq(x, y), Eq(r, IntLit(0))), Implies(Eq(r, IntLit(0)), Eq(x, y)))
		}
		return r, side, nil
	case token.EQL:
		return Eq(x, y), nil, nil
	case token.NEQ:
		return Not(Eq(x, y)), nil, nil
	case token.LSS:
		return ILt(x, y), nil, nil
	case token.LEQ:
		return ILe(x, y), nil, nil
	case token.GTR:
		return IGt(x, y), nil, nil
	case token.GEQ:
		return IGe(x, y), nil, nil
	}
	return nil, nil, fmt.Errorf("int binop %s", op)
}

func shiftedMask(m *big.Int) (a, b int, ok bool) {
	if m.Sign() <= 0 {
		return
	}
	for m.Bit(a) == 0 {
		a++
	}
	r := new(big.Int).Rsh(m, uint(a))
	k, isp := isPow2(new(big.Int).Add(r, big.NewInt(1)))
	if !isp {
		return 0, 0, false
	}
	return a, k, true
}

func (th Theory) pow2Table(y Expr, w int) Expr {
	// ite chain: y==0 -> 1, y==1 -> 2 ... y>=w -> 2^w (so that the wrapped product is 0)
	var e Expr = BigLit(pow2(w))
	for k := w - 1; k >= 0; k-- {
		e = Ite(Eq(y, IntLit(int64(k))), BigLit(pow2(k)), e)
	}
	return e
}

// Convert translates a conversion between integer types.
func (th Theory) Convert(x Expr, from, to types.Type) (Expr, error) {
	fw, fs, fok := intInfo(from)
	tw, _, tok := intInfo(to)
	if !fok || !tok {
		return nil, fmt.Errorf("convert %s -> %s", from, to)
	}
	if th.bv {
		switch {
		case tw == fw:
			return x, nil
		case tw < fw:
			return mk(fmt.Sprintf("(_ extract %d 0)", tw-1), BV(tw), x), nil
		case fs:
			return mk(fmt.Sprintf("(_ sign_extend %d)", tw-fw), BV(tw), x), nil
		default:
			return mk(fmt.Sprintf("(_ zero_extend %d)", tw-fw), BV(tw), x), nil
		}
	}
	_, ts, _ := intInfo(to)
	// value-preserving when the source range is inside the target range
	if (fs == ts && tw >= fw) || (!fs && ts && tw > fw) {
		return x, nil
	}
	if tw >= fw {
		// same width sign change, or signed -> wider unsigned: one modulus away
		return th.wrap(x, to, true), nil
	}
	return th.wrap(x, to, false), nil
}

func (th Theory) ConstOf(c constant.Value, t types.Type) (Expr, error) {
	if c == nil {
		return th.Zero(t), nil
	}
	switch c.Kind() {
	case constant.Bool:
		if constant.BoolVal(c) {
			return True, nil
		}
		return False, nil
	case constant.Int:
		v, ok := new(big.Int).SetString(c.ExactString(), 10)
		if !ok {
			return nil, fmt.Errorf("bad int const %s", c)
		}
		return th.IntConst(v, t), nil
	case constant.String:
		return th.AddrLit(internString(constant.StringVal(c))), nil
	}
	return nil, fmt.Errorf("unsupported constant %s", c)
}

var stringIDs = map[string]int64{}
var stringByID = map[int64]string{}

func internString(s string) int64 {
	if id, ok := stringIDs[s]; ok {
		return id
	}
	id := int64(1000 + len(stringIDs))
	stringIDs[s] = id
	stringByID[id] = s
	return id
}
