package main

// Lemmas of the spec libraries.
//
// A spec library (spec/<lib>.<theory>.smt2) may state facts about its recursive spec functions
// that a solver does not find by itself, in the form
//
//	(lemma NAME
//	  :props (C13)
//	  :vars ((M (Array Int Int)) (k Int) ...)
//	  :induction k            ; optional: natural-number induction on the Int variable k
//	  :statement FORMULA
//	  :pattern (TERM ...))
//
// Users of the library get (assert (forall VARS (! FORMULA :pattern ...))). The lemma itself is
// an obligation of the pseudo function "lemmas.<lib>": without :induction, FORMULA for arbitrary
// constants; with it, FORMULA at k = 0 and FORMULA at k+1 from k >= 0 and the hypothesis
// (forall VARS-without-k FORMULA). Everything that precedes the lemma in the library (its
// definitions and the earlier lemmas, as axioms) may be used; nothing that follows.

import (
	"fmt"
	"strings"
)

type lsx struct {
	atom string
	list []*lsx
}

func (s *lsx) String() string {
	if s.list == nil {
		return s.atom
	}
	parts := make([]string, len(s.list))
	for i, c := range s.list {
		parts[i] = c.String()
	}
	return "(" + strings.Join(parts, " ") + ")"
}

func parseLsx(src string) (*lsx, error) {
	pos := 0
	var parse func() (*lsx, error)
	skip := func() {
		for pos < len(src) {
			c := src[pos]
			if c == ' ' || c == '\n' || c == '\t' || c == '\r' {
				pos++
			} else if c == ';' {
				for pos < len(src) && src[pos] != '\n' {
					pos++
				}
			} else {
				break
			}
		}
	}
	parse = func() (*lsx, error) {
		skip()
		if pos >= len(src) {
			return nil, fmt.Errorf("unexpected end")
		}
		if src[pos] == '(' {
			pos++
			n := &lsx{list: []*lsx{}}
			for {
				skip()
				if pos >= len(src) {
					return nil, fmt.Errorf("unbalanced")
				}
				if src[pos] == ')' {
					pos++
					return n, nil
				}
				c, err := parse()
				if err != nil {
					return nil, err
				}
				n.list = append(n.list, c)
			}
		}
		st := pos
		for pos < len(src) && !strings.ContainsRune(" \n\t\r()", rune(src[pos])) {
			pos++
		}
		return &lsx{atom: src[st:pos]}, nil
	}
	return parse()
}

type lemma struct {
	Name      string
	Props     []string
	Vars      []*lsx // each (name sort)
	Induction string
	Statement *lsx
	Pattern   *lsx
	Opaque    []string // defined functions treated as uninterpreted in this lemma's own proof
	Uses      []string // earlier lemmas of the library this lemma's proof may use (none by default)
	libIndex  int // position among the library's forms
}

func parseLemma(form string) (*lemma, error) {
	t, err := parseLsx(form)
	if err != nil {
		return nil, err
	}
	if len(t.list) < 2 || t.list[0].atom != "lemma" {
		return nil, fmt.Errorf("not a lemma")
	}
	l := &lemma{Name: t.list[1].atom}
	for i := 2; i+1 < len(t.list); i += 2 {
		k, v := t.list[i].atom, t.list[i+1]
		switch k {
		case ":props":
			for _, p := range v.list {
				l.Props = append(l.Props, p.atom)
			}
		case ":vars":
			l.Vars = v.list
		case ":induction":
			l.Induction = v.atom
		case ":statement":
			l.Statement = v
		case ":pattern":
			l.Pattern = v
		case ":uses":
			for _, p := range v.list {
				l.Uses = append(l.Uses, p.atom)
			}
		case ":opaque":
			for _, p := range v.list {
				l.Opaque = append(l.Opaque, p.atom)
			}
		default:
			return nil, fmt.Errorf("lemma %s: unknown key %q", l.Name, k)
		}
	}
	if l.Statement == nil || len(l.Vars) == 0 {
		return nil, fmt.Errorf("lemma %s: needs :vars and :statement", l.Name)
	}
	if l.Induction != "" {
		found := false
		for _, v := range l.Vars {
			if v.list[0].atom == l.Induction {
				if v.list[1].String() != "Int" {
					return nil, fmt.Errorf("lemma %s: induction variable must be Int", l.Name)
				}
				found = true
			}
		}
		if !found {
			return nil, fmt.Errorf("lemma %s: induction variable %s not among :vars", l.Name, l.Induction)
		}
	}
	return l, nil
}

func (l *lemma) quantified(skip string) string {
	var vs []string
	for _, v := range l.Vars {
		if v.list[0].atom != skip {
			vs = append(vs, v.String())
		}
	}
	body := l.Statement.String()
	if l.Induction != "" {
		// induction establishes the statement for the naturals only
		body = "(=> (>= " + l.Induction + " 0) " + body + ")"
	}
	if l.Pattern != nil {
		body = "(! " + body + " :pattern " + l.Pattern.String() + ")"
	}
	if len(vs) == 0 {
		return body
	}
	return "(forall (" + strings.Join(vs, " ") + ") " + body + ")"
}

// axiom: what the users of the library may assume.
func (l *lemma) axiom() string { return "(assert " + l.quantified("") + ")" }

// lemmaObligations: the proof obligations of every lemma of library key (e.g. "xxh.int").
func (e *Engine) lemmaObligations(libKey string) []*Obligation {
	forms := e.specLibRaw[libKey]
	var obls []*Obligation
	var prefix []string
	lemmaOf := map[string]string{} // axiom line -> lemma name
	prefix = append(prefix, e.prelude(Theory{bv: strings.HasSuffix(libKey, ".bv"), named32: !strings.HasSuffix(libKey, ".bv")}, nil)...)
	for _, form := range forms {
		if !strings.HasPrefix(form, "(lemma") {
			prefix = append(prefix, form)
			continue
		}
		l, err := parseLemma(form)
		if err != nil {
			o := &Obligation{Proc: "lemmas." + libKey, Name: "lemmas." + libKey + "/parse", Status: "error", Output: err.Error(), Meta: map[string]string{}}
			obls = append(obls, o)
			continue
		}
		mkOb := func(kind string, extra []string, goal string) {
			lines := make([]string, 0, len(prefix)+8)
			for _, pl := range prefix {
				if ln, isLemma := lemmaOf[pl]; isLemma && !hasProp(l.Uses, ln) {
					continue // an earlier lemma is given to this proof only on request (:uses)
				}
				if strings.HasPrefix(pl, "(define-fun ") {
					if name, sig, ok := parseFunSig(pl); ok && hasProp(l.Opaque, name) {
						args := make([]string, len(sig.Args))
						for i, a := range sig.Args {
							args[i] = string(a)
						}
						pl = fmt.Sprintf("(declare-fun %s (%s) %s)", name, strings.Join(args, " "), sig.Ret)
					}
				}
				lines = append(lines, pl)
			}
			for _, v := range l.Vars {
				lines = append(lines, fmt.Sprintf("(declare-const %s %s)", v.list[0].atom, v.list[1].String()))
			}
			lines = append(lines, extra...)
			o := &Obligation{Proc: "lemmas." + strings.SplitN(libKey, ".", 2)[0], Name: "lemmas." + strings.SplitN(libKey, ".", 2)[0] + "/" + l.Name + "/" + kind,
				Props: l.Props, script: &lines, prefix: len(lines), goal: "(assert (not " + goal + "))", Meta: map[string]string{"pos": "spec/" + libKey + ".smt2"}}
			obls = append(obls, o)
		}
		st := l.Statement.String()
		if l.Induction == "" {
			mkOb("direct", nil, st)
		} else {
			k := l.Induction
			mkOb("base", []string{fmt.Sprintf("(assert (= %s 0))", k)}, st)
			mkOb("step", []string{fmt.Sprintf("(assert (>= %s 0))", k), "(assert " + l.quantified(k) + ")", "(assert " + st + ")"},
				fmt.Sprintf("(let ((%s (+ %s 1))) %s)", k, k, st))
		}
		prefix = append(prefix, l.axiom())
		lemmaOf[l.axiom()] = l.Name
	}
	// the whole library (definitions, axioms, lemmas as axioms) must not be refutable
	lines := append([]string{}, prefix...)
	name := "lemmas." + strings.SplitN(libKey, ".", 2)[0]
	obls = append(obls, &Obligation{Proc: name, Name: name + "/consistency", NotUnsat: true, script: &lines, prefix: len(lines),
		goal: "(assert true)", Meta: map[string]string{"pos": "spec/" + libKey + ".smt2"}})
	return obls
}
