package main

// go/ssa (naive form) -> IVL.

import (
	"fmt"
	"go/constant"
	"go/token"
	"go/types"
	"math/big"
	"path/filepath"
	"sort"
	"strings"

	"golang.org/x/tools/go/ssa"
)

type lvKind int

const (
	lvCell  lvKind = iota // local scalar cell
	lvField               // scalar heap field H_f[obj]
	lvElem                // element of typed memory M_T[addr]
)

type lval struct {
	kind lvKind
	cell *Cell
	heap *Cell // H_ or M_ cell
	idx  Expr  // obj or addr
	typ  types.Type
	fld  *fieldRef
}

type fieldRef struct {
	st    *types.Named
	index int
	name  string
}

// transErr aborts the translation of one function (outside subset etc.).
type transErr struct{ msg string }

func fail(format string, a ...interface{}) { panic(transErr{fmt.Sprintf(format, a...)}) }

type deferSite struct {
	instr      *ssa.Defer
	flag       *Cell
	args       []sval
	binds      []sval
	translated bool
	argCells   []*Cell
}

// sval: an SSA/spec value: SMT term + Go type + optional static lvalue.
type sval struct {
	e   Expr
	typ types.Type
	lv  *lval
}

// frame is one activation being translated (the function under contract or an
// inlined callee).
type frame struct {
	t          *fnTrans
	fn         *ssa.Function
	prefix     string
	vals       map[ssa.Value]sval
	blocks     map[*ssa.BasicBlock]*Block
	allocs     map[*ssa.Alloc]sval
	names      map[string][]sval // variable name -> cells in declaration order
	params     map[string]sval
	results    []*Cell
	retBlock   *Block // inlined: join block
	defers     []*deferSite
	panicking  *Cell
	hasRecover bool
	panicBlock *Block
	parent     *frame
	freeVars   map[*ssa.FreeVar]sval
	depth      int
	phiEdges   map[*ssa.BasicBlock]map[*ssa.BasicBlock]*Block
	tuples     map[ssa.Value][]sval
	closures   map[ssa.Value]*ssa.MakeClosure
	deferredBy *frame
	ptrBind    map[string]*lval
	namePos    map[string][]token.Pos
	resLv      map[int]*lval
}

type fnTrans struct {
	renames       map[string]string // contract identifier -> the local's present name (renamed locals, by position)
	eng           *Engine
	th            Theory
	fc            *FuncContract
	fn            *ssa.Function
	proc          *Proc
	cur           *Block
	top           *frame
	globals       map[string]*Cell // heap / memory / ghost cells used
	gorder        []string
	cellTyp       map[string]types.Type
	tmp           int
	oldSnap       map[string]*Cell
	callSeq       map[string]int
	assumptions   map[string]bool
	loopHeads     []*Block
	writeRanges   []writeRange
	modFields     []modField
	modAll        bool
	retCount      int
	usedSpecFuncs map[string]bool
	curPos        token.Pos
	preGlobals    []*Cell // globals discovered by a first translation pass (goroutine fragments)
	constGlobals  map[string]int64
	outside       map[string]int
	callSites     map[ssa.Instruction]string
	usedAsserts   map[string]bool
	edgeSites     map[[2]*ssa.BasicBlock][]string // `end loop N` sites: control-flow edges that carry clauses
	calleeLibs    map[string]bool // spec libraries named by the contracts of the functions called
	usedSites     map[string]bool
	stmtSites     map[ssa.Instruction][]string
	hasStmtSites  bool
}

type writeRange struct {
	mem    *Cell
	lo, hi Expr // evaluated at entry
}
type modField struct {
	heap *Cell
	obj  Expr
}

func (t *fnTrans) freshCell(base string, s Sort) *Cell {
	t.tmp++
	return &Cell{fmt.Sprintf("%s$%d", base, t.tmp), s}
}

func (t *fnTrans) global(name string, s Sort) *Cell {
	if c, ok := t.globals[name]; ok {
		return c
	}
	c := &Cell{name, s}
	t.globals[name] = c
	t.gorder = append(t.gorder, name)
	return c
}

func typeKey(t types.Type) string {
	if b, ok := t.(*types.Basic); ok {
		t = types.Typ[b.Kind()] // byte == uint8, rune == int32
	}
	if _, named := t.(*types.Named); !named {
		if i, ok := t.Underlying().(*types.Interface); ok && i.Empty() {
			return "any" // interface{} and any are the same type
		}
	}
	s := types.TypeString(t, func(p *types.Package) string { return p.Name() })
	return sanitize(s)
}

func (t *fnTrans) mem(elem types.Type) *Cell {
	c := t.global("M_"+typeKey(elem), ArrayOf(t.th.Addr(), t.th.SortOf(elem)))
	t.cellTyp[c.Name] = elem
	return c
}

func (t *fnTrans) heap(st *types.Named, idx int) *Cell {
	f := st.Underlying().(*types.Struct).Field(idx)
	name := "H_" + typeKey(st) + "_" + f.Name()
	c := t.global(name, ArrayOf(t.th.Addr(), t.th.SortOf(f.Type())))
	t.cellTyp[name] = f.Type()
	return c
}

func (t *fnTrans) allocTop() *Cell { return t.global("allocTop", t.th.Addr()) }
func (t *fnTrans) objTop() *Cell   { return t.global("objTop", t.th.Addr()) }

const (
	nFieldSlots = 30      // field slots for embedded structs / arrays
	embArrBase  = 1 << 52 // element addresses of arrays embedded in structs
	embArrSpan  = 1 << 17
	addrLimit   = 1 << 47
)

func (t *fnTrans) fieldSlot(st *types.Named, idx int) int64 {
	return t.eng.fieldSlot(st, idx)
}

// Object ids: a root object (allocated, parameter, global) has an id < 2^16.
// Every struct- or array-typed field of the repository has its own slot k; the
// id of field k embedded in object id o is o + 2^(16+k). A path of embeddings is
// therefore a bit set above bit 16 (a type nests each field at most once), the
// root is id mod 2^16, and the encoding is the same at every nesting depth, so
// it commutes with passing an embedded object to a callee.
const rootBits = 16

// embObj: object id of struct-typed field idx of obj.
func (t *fnTrans) embObj(obj Expr, st *types.Named, idx int) Expr {
	k := t.fieldSlot(st, idx)
	off := new(big.Int).Lsh(big.NewInt(1), uint(rootBits+k))
	if t.th.bv {
		return mk("bvadd", BV(64), obj, BVLit(off, 64))
	}
	return IAdd(obj, BigLit(off))
}

// embArr: base element address of array-typed field idx of obj.
func (t *fnTrans) embArr(obj Expr, st *types.Named, idx int) Expr {
	id := t.embObj(obj, st, idx)
	if t.th.bv {
		return mk("bvadd", BV(64), BVLit64(embArrBase, 64), mk("bvmul", BV(64), id, BVLit64(embArrSpan, 64)))
	}
	return IAdd(IntLit(embArrBase), IMul(id, IntLit(embArrSpan)))
}

// rootOfID: the root object of an object id.
func (t *fnTrans) rootOfID(id Expr) Expr {
	if t.th.bv {
		return mk("bvand", BV(64), id, BVLit64((1<<rootBits)-1, 64))
	}
	return mk("mod", SInt, id, IntLit(1<<rootBits))
}

func namedStruct(t types.Type) (*types.Named, *types.Struct) {
	if p, ok := t.Underlying().(*types.Pointer); ok {
		t = p.Elem()
	}
	n, _ := t.(*types.Named)
	s, _ := t.Underlying().(*types.Struct)
	return n, s
}

// ---------------------------------------------------------------------

// typeInv: assumptions that hold for every value of Go type typ.
func (t *fnTrans) typeInv(e Expr, typ types.Type) Expr {
	th := t.th
	switch u := typ.Underlying().(type) {
	case *types.Basic:
		if _, _, ok := intInfo(typ); ok {
			return th.Range(e, typ)
		}
		_ = u
		return nil
	case *types.Slice:
		p, l, c := th.SPtr(e), th.SLen(e), th.SCap(e)
		if th.bv {
			lim := BVLit64(1<<61, 64)
			return And(mk("bvule", SBool, l, c), mk("bvult", SBool, c, BVLit64(addrLimit, 64)), mk("bvult", SBool, p, lim),
				Implies(Eq(p, BVLit64(0, 64)), Eq(c, BVLit64(0, 64))),
				Implies(Not(Eq(c, BVLit64(0, 64))), mk("bvuge", SBool, p, BVLit64(4096, 64))))
		}
		lim := IntLit(1 << 61)
		return And(ILe(IntLit(0), l), ILe(l, c), ILt(c, IntLit(addrLimit)), ILe(IntLit(0), p), ILt(IAdd(p, c), lim),
			Implies(Eq(p, IntLit(0)), Eq(c, IntLit(0))),
			Implies(IGt(c, IntLit(0)), IGe(p, IntLit(4096))))
	case *types.Pointer, *types.Interface, *types.Signature, *types.Struct:
		// object ids and heap addresses are below 2^47, but a pointer to an array embedded in a
		// struct is an address at or above 2^52 and a boxed pointer carries its type id above 2^41:
		// the only bound that holds of every such value is the id space itself
		if th.bv {
			return mk("bvult", SBool, e, BVLit64(1<<62, 64))
		}
		return And(ILe(IntLit(0), e), ILt(e, IntLit(1<<62)))
	}
	return nil
}

func (t *fnTrans) assumeInv(e Expr, typ types.Type) {
	if inv := t.typeInv(e, typ); inv != nil {
		t.cur.Assume(inv)
	}
}

func (t *fnTrans) newTemp(base string, e Expr) Expr {
	c := t.freshCell(base, e.Sort())
	t.cur.Assign(c, e)
	return c
}

func (t *fnTrans) havocTemp(base string, s Sort, typ types.Type) Expr {
	c := t.freshCell(base, s)
	t.cur.Havoc(c)
	if typ != nil {
		t.assumeInv(c, typ)
	}
	return c
}

// check emits a run-time check (bounds, nil, ...). In a function whose defers
// recover, the failing side is an edge to the panic block.
func (f *frame) check(cond Expr, kind string) {
	t := f.t
	if isLit(cond, "true") {
		return
	}
	rf := f
	for rf != nil && !rf.hasRecover {
		rf = rf.parent
	}
	if rf == nil {
		name := "no-panic/" + kind
		if f.prefix != "" {
			name = "no-panic/" + strings.TrimSuffix(f.prefix, "$") + "/" + kind
		}
		t.cur.Assert(cond, name, t.fc.Props)
		t.cur.Cmds[len(t.cur.Cmds)-1].Meta = map[string]string{"pos": t.posString()}
		return
	}
	cont := t.proc.NewBlock("cont")
	pb := t.proc.NewBlock("panic-edge")
	t.cur.If(cond, cont, pb)
	pb.Assign(rf.panicking, True)
	pb.Goto(rf.panicBlock)
	t.cur = cont
}

// ---------------------------------------------------------------------

func (f *frame) val(v ssa.Value) sval {
	t := f.t
	switch x := v.(type) {
	case *ssa.Const:
		if x.Value == nil {
			return sval{e: t.th.Zero(x.Type()), typ: x.Type()}
		}
		e, err := t.th.ConstOf(x.Value, x.Type())
		if err != nil {
			fail("%v", err)
		}
		return sval{e: e, typ: x.Type()}
	case *ssa.Global:
		return t.globalVar(x)
	case *ssa.Function:
		return sval{e: t.th.AddrLit(t.eng.funcID(x)), typ: x.Type()}
	case *ssa.FreeVar:
		if sv, ok := f.freeVars[x]; ok {
			return sv
		}
		fail("unbound free variable %s", x.Name())
	case *ssa.Builtin:
		fail("builtin %s used as value", x.Name())
	}
	if sv, ok := f.vals[v]; ok {
		return sv
	}
	fail("value %s (%T) of %s used before definition", v.Name(), v, f.fn.Name())
	return sval{}
}

func (t *fnTrans) globalVar(g *ssa.Global) sval {
	// a package-level variable: one cell G_pkg.name holding its value
	typ := g.Type().(*types.Pointer).Elem()
	name := "G_" + g.Pkg.Pkg.Name() + "." + g.Name()
	if id, ok := knownErrorGlobals[g.Pkg.Pkg.Name()+"."+g.Name()]; ok {
		// immutable error variables of the standard library: fixed ids
		c := t.global(name, t.th.Addr())
		t.constGlobals[name] = id
		return sval{e: nil, typ: g.Type(), lv: &lval{kind: lvCell, cell: c, typ: typ}}
	}
	var c *Cell
	switch typ.Underlying().(type) {
	case *types.Struct:
		// address of a global struct (e.g. sync.Pool): a fixed object id
		return sval{e: t.th.AddrLit(t.eng.globalID(name)), typ: g.Type()}
	default:
		c = t.global(name, t.th.SortOf(typ))
		t.cellTyp[name] = typ
	}
	return sval{e: nil, typ: g.Type(), lv: &lval{kind: lvCell, cell: c, typ: typ}}
}

func (f *frame) setVal(v ssa.Value, sv sval) {
	t := f.t
	if sv.e != nil {
		// every SSA register is an IVL cell so that loops re-assign it
		c := &Cell{f.prefix + v.Name(), sv.e.Sort()}
		if _, isCell := sv.e.(*Cell); !isCell || true {
			t.cur.Assign(c, sv.e)
		}
		sv.e = c
	}
	f.vals[v] = sv
}

func (f *frame) load(lv *lval) Expr {
	t := f.t
	switch lv.kind {
	case lvCell:
		return lv.cell
	case lvField:
		v := t.newTemp("ld", Select(lv.heap, lv.idx))
		t.assumeInv(v, lv.typ)
		if _, isSlice := lv.typ.Underlying().(*types.Slice); isSlice && !t.th.bv {
			// a slice held in a field points into memory that is already allocated
			t.cur.Assume(Implies(ILt(t.th.SPtr(v), IntLit(embArrBase)), ILe(IAdd(t.th.SPtr(v), t.th.SCap(v)), t.allocTop())))
		}
		return v
	case lvElem:
		v := t.newTemp("ld", Select(lv.heap, lv.idx))
		t.assumeInv(v, lv.typ)
		return v
	}
	panic("load")
}

func (f *frame) store(lv *lval, v Expr) {
	t := f.t
	switch lv.kind {
	case lvCell:
		t.cur.Assign(lv.cell, v)
	case lvField:
		t.checkModField(lv.heap, lv.idx)
		t.cur.Assign(lv.heap, Store(lv.heap, lv.idx, v))
	case lvElem:
		t.checkWrite(lv.heap, lv.idx, t.th.AAdd(lv.idx, t.th.AddrLit(1)), "store")
		t.cur.Assign(lv.heap, Store(lv.heap, lv.idx, v))
	}
}

// ---------------------------------------------------------------------
// frame conditions

func (t *fnTrans) oldOf(c *Cell) *Cell {
	if o, ok := t.oldSnap[c.Name]; ok {
		return o
	}
	o := &Cell{"old$" + c.Name, c.S}
	t.oldSnap[c.Name] = o
	return o
}

// checkWrite: [lo,hi) of memory mem may be written: inside a declared writes
// range, or in memory allocated by this activation (>= old allocTop).
func (t *fnTrans) checkWrite(mem *Cell, lo, hi Expr, what string) {
	if t.modAll {
		return
	}
	th := t.th
	var alts []Expr
	alts = append(alts, th.ALe(hi, lo)) // empty
	// memory allocated by this activation: heap blocks above the old allocation top ...
	alts = append(alts, And(th.ALe(t.oldOf(t.allocTop()), lo), th.ALt(lo, th.AddrLit(embArrBase))))
	// ... or an array embedded in an object allocated by this activation
	var id Expr
	if th.bv {
		id = mk("bvlshr", BV(64), mk("bvsub", BV(64), lo, BVLit64(embArrBase, 64)), BVLit64(17, 64))
	} else {
		id = mk("div", SInt, ISub(lo, IntLit(embArrBase)), IntLit(embArrSpan))
	}
	alts = append(alts, And(th.ALe(th.AddrLit(embArrBase), lo), th.ALe(t.oldOf(t.objTop()), t.rootOfID(id))))
	for _, w := range t.writeRanges {
		if w.mem.Name != mem.Name {
			continue
		}
		alts = append(alts, And(th.ALe(w.lo, lo), th.ALe(hi, w.hi)))
	}
	t.cur.Assert(Or(alts...), "frame/writes/"+what, t.fc.Props)
	t.cur.Cmds[len(t.cur.Cmds)-1].Meta = map[string]string{"pos": t.posString()}
}

func (t *fnTrans) checkModField(heap *Cell, obj Expr) {
	if t.modAll {
		return
	}
	var alts []Expr
	alts = append(alts, t.isFreshObj(obj))
	// a field of the nil object cannot be written (that would be a nil dereference, checked separately)
	alts = append(alts, Eq(obj, t.th.AddrLit(0)))
	for _, m := range t.modFields {
		if m.heap.Name == heap.Name {
			alts = append(alts, Eq(m.obj, obj))
		}
	}
	t.cur.Assert(Or(alts...), "frame/modifies/"+strings.TrimPrefix(heap.Name, "H_"), t.fc.Props)
	t.cur.Cmds[len(t.cur.Cmds)-1].Meta = map[string]string{"pos": t.posString()}
}

// isFreshObj: obj (possibly an embedded sub-object id) was allocated by this activation.
func (t *fnTrans) isFreshObj(obj Expr) Expr {
	return t.th.ALe(t.oldOf(t.objTop()), t.rootOfID(obj))
}

// ---------------------------------------------------------------------

func loopFree(fn *ssa.Function) bool {
	color := map[*ssa.BasicBlock]int{}
	ok := true
	var dfs func(b *ssa.BasicBlock)
	dfs = func(b *ssa.BasicBlock) {
		color[b] = 1
		for _, s := range b.Succs {
			switch color[s] {
			case 0:
				dfs(s)
			case 1:
				ok = false
			}
		}
		color[b] = 2
	}
	if len(fn.Blocks) > 0 {
		dfs(fn.Blocks[0])
	}
	return ok
}

func callsRecover(fn *ssa.Function) bool {
	for _, b := range fn.Blocks {
		for _, in := range b.Instrs {
			if c, ok := in.(*ssa.Call); ok {
				if bi, ok := c.Call.Value.(*ssa.Builtin); ok && bi.Name() == "recover" {
					return true
				}
			}
		}
	}
	return false
}

func (t *fnTrans) newFrame(fn *ssa.Function, parent *frame, prefix string) *frame {
	f := &frame{t: t, fn: fn, prefix: prefix, parent: parent,
		vals: map[ssa.Value]sval{}, blocks: map[*ssa.BasicBlock]*Block{}, allocs: map[*ssa.Alloc]sval{},
		names: map[string][]sval{}, params: map[string]sval{}, freeVars: map[*ssa.FreeVar]sval{},
		phiEdges: map[*ssa.BasicBlock]map[*ssa.BasicBlock]*Block{}, tuples: map[ssa.Value][]sval{}, closures: map[ssa.Value]*ssa.MakeClosure{}}
	if parent != nil {
		f.depth = parent.depth + 1
	}
	// does any deferred call recover?
	for _, b := range fn.Blocks {
		for _, in := range b.Instrs {
			if d, ok := in.(*ssa.Defer); ok {
				var callee *ssa.Function
				if mc, ok := d.Call.Value.(*ssa.MakeClosure); ok {
					callee = mc.Fn.(*ssa.Function)
				} else {
					callee = d.Call.StaticCallee()
				}
				if callee != nil && callsRecover(callee) {
					f.hasRecover = true
				}
			}
		}
	}
	return f
}

// translateBody lowers all blocks of f.fn. Entry state (parameters) must have
// been set up by the caller. Returns after all blocks are emitted; t.cur is
// left undefined (callers set it).
func (f *frame) translateBody(entry *Block) {
	t := f.t
	fn := f.fn
	for _, b := range fn.Blocks {
		if b == fn.Blocks[0] {
			f.blocks[b] = entry
		} else {
			f.blocks[b] = t.proc.NewBlock(fmt.Sprintf("%s%s.%d", f.prefix, fn.Name(), b.Index))
		}
	}
	if f.hasRecover || f.hasDefers() {
		f.panicking = &Cell{f.prefix + "panicking", SBool}
		entry.Assign(f.panicking, False)
	}
	if f.hasRecover {
		f.panicBlock = t.proc.NewBlock(f.prefix + "panic")
	}
	// pre-create defer flags
	for _, b := range fn.Blocks {
		for _, in := range b.Instrs {
			if d, ok := in.(*ssa.Defer); ok {
				ds := &deferSite{instr: d, flag: &Cell{fmt.Sprintf("%sdeferred$%d", f.prefix, len(f.defers)), SBool}}
				// argument values live in cells that exist on every path (a defer may be conditional)
				for i, a := range d.Call.Args {
					if pt, isPtr := a.Type().Underlying().(*types.Pointer); isPtr {
						switch pt.Elem().Underlying().(type) {
						case *types.Struct, *types.Array:
							// object id / array base: an ordinary value
						default:
							ds.argCells = append(ds.argCells, nil) // pointer to a scalar: static lvalue
							continue
						}
					}
					c := &Cell{fmt.Sprintf("%sdefarg$%d$%d", f.prefix, len(f.defers), i), t.th.SortOf(a.Type())}
					entry.Assign(c, t.th.Zero(a.Type()))
					ds.argCells = append(ds.argCells, c)
				}
				f.defers = append(f.defers, ds)
				entry.Assign(ds.flag, False)
			}
		}
	}
	// translate in reverse-postorder so that values are defined before use
	order := rpo(fn)
	for _, b := range order {
		t.cur = f.blocks[b]
		if f.parent == nil && len(b.Preds) == 1 {
			if _, isIf := b.Preds[0].Instrs[len(b.Preds[0].Instrs)-1].(*ssa.If); isIf && len(b.Instrs) > 0 {
				// branch canary: a branch of the function under contract that no state can enter is
				// either dead code under the contract or a sign of contradictory assumptions; listed
				// in the evidence so that each one can be explained
				pos := t.eng.fset.Position(b.Instrs[0].Pos())
				if !pos.IsValid() {
					for _, in := range b.Instrs {
						if in.Pos().IsValid() {
							pos = t.eng.fset.Position(in.Pos())
							break
						}
					}
				}
				t.cur.Cmds = append(t.cur.Cmds, Cmd{Kind: CAssert, E: False, Name: fmt.Sprintf("canary/branch/%s:%d", filepath.Base(pos.Filename), pos.Line), ExpectSat: true, Props: t.fc.Props})
			}
		}
		for _, in := range b.Instrs {
			f.instr(in)
		}
	}
	if f.hasRecover {
		// panic path: run defers in recovering mode, then resume at Recover block
		t.cur = f.panicBlock
		f.runDefers()
		t.cur.Assert(Not(f.panicking), "no-panic/unrecovered", t.fc.Props)
		if fn.Recover != nil {
			t.cur.Goto(f.blocks[fn.Recover])
		} else {
			// no named results: function returns zero values
			f.emitReturn(nil)
		}
	}
}

func (f *frame) hasDefers() bool {
	for _, b := range f.fn.Blocks {
		for _, in := range b.Instrs {
			if _, ok := in.(*ssa.Defer); ok {
				return true
			}
		}
	}
	return false
}

func rpo(fn *ssa.Function) []*ssa.BasicBlock {
	seen := map[*ssa.BasicBlock]bool{}
	var post []*ssa.BasicBlock
	var dfs func(b *ssa.BasicBlock)
	dfs = func(b *ssa.BasicBlock) {
		seen[b] = true
		for _, s := range b.Succs {
			if !seen[s] {
				dfs(s)
			}
		}
		post = append(post, b)
	}
	dfs(fn.Blocks[0])
	for i, j := 0, len(post)-1; i < j; i, j = i+1, j-1 {
		post[i], post[j] = post[j], post[i]
	}
	if fn.Recover != nil && !seen[fn.Recover] {
		n := len(post)
		dfs(fn.Recover)
		tail := post[n:]
		for i, j := 0, len(tail)-1; i < j; i, j = i+1, j-1 {
			tail[i], tail[j] = tail[j], tail[i]
		}
	}
	return post
}

func (f *frame) varName(a *ssa.Alloc) string { return a.Comment }

func (t *fnTrans) posString() string {
	if !t.curPos.IsValid() {
		return ""
	}
	p := t.eng.fset.Position(t.curPos)
	return fmt.Sprintf("%s:%d:%d", p.Filename, p.Line, p.Column)
}

func (f *frame) instr(in ssa.Instruction) {
	t := f.t
	th := t.th
	f.stmtSite(in)
	if p := in.Pos(); p.IsValid() {
		t.curPos = p
	}
	switch x := in.(type) {
	case *ssa.DebugRef:
		return
	case *ssa.Alloc:
		f.alloc(x)
	case *ssa.Store:
		addr := f.val(x.Addr)
		v := f.val(x.Val)
		f.storeTo(addr, v, x.Val.Type())
	case *ssa.UnOp:
		f.unop(x)
	case *ssa.BinOp:
		a, b := f.val(x.X), f.val(x.Y)
		if (a.e == nil && a.lv != nil) || (b.e == nil && b.lv != nil) {
			// address of a local or field compared with nil: never nil
			if x.Op == token.EQL {
				f.setVal(x, sval{e: False, typ: x.Type()})
				return
			}
			if x.Op == token.NEQ {
				f.setVal(x, sval{e: True, typ: x.Type()})
				return
			}
			fail("arithmetic on a pointer to a scalar")
		}
		res, side, err := th.BinOp(x.Op, a.e, b.e, x.X.Type(), x.Y.Type(), func(base string, s Sort) Expr {
			return t.havocTemp(base, s, nil)
		})
		if err != nil {
			fail("%s: %v", x, err)
		}
		if x.Op == token.QUO || x.Op == token.REM {
			f.check(Not(Eq(b.e, th.Zero(x.Y.Type()))), "div-by-zero")
		}
		for _, s := range side {
			if s != nil {
				t.cur.Assume(s)
			}
		}
		if !th.bv && x.Op == token.OR {
			res = f.orExact(x, a.e, b.e, res)
		}
		if !th.bv && x.Op == token.MUL {
			// recognise b*(a/b): exact, equals a - a mod b  (0 <= a mod b < b for b > 0)
			res = f.mulPattern(x, a.e, b.e, res)
		}
		f.setVal(x, sval{e: res, typ: x.Type()})
	case *ssa.Convert:
		f.convert(x)
	case *ssa.ChangeType:
		v := f.val(x.X)
		v.typ = x.Type()
		f.setVal(x, v)
	case *ssa.ChangeInterface:
		v := f.val(x.X)
		v.typ = x.Type()
		f.setVal(x, v)
	case *ssa.MakeInterface:
		f.makeInterface(x)
	case *ssa.IndexAddr:
		f.indexAddr(x)
	case *ssa.Index:
		f.index(x)
	case *ssa.Slice:
		f.slice(x)
	case *ssa.FieldAddr:
		f.fieldAddr(x)
	case *ssa.Field:
		f.field(x)
	case *ssa.Phi:
		// handled on edges (see jump/if)
		if _, ok := f.vals[x]; !ok {
			c := &Cell{f.prefix + x.Name(), th.SortOf(x.Type())}
			f.vals[x] = sval{e: c, typ: x.Type()}
		}
	case *ssa.Extract:
		tv := f.val(x.Tuple)
		_ = tv
		tup, ok := f.tuples[x.Tuple]
		if !ok {
			fail("extract from unknown tuple %s", x.Tuple.Name())
		}
		f.setVal(x, tup[x.Index])
	case *ssa.Call:
		f.call(x)
	case *ssa.Defer:
		f.deferInstr(x)
	case *ssa.RunDefers:
		f.runDefers()
	case *ssa.MakeClosure:
		f.vals[x] = sval{e: nil, typ: x.Type()} // only usable by defer / known patterns
		f.closures[x] = x
	case *ssa.MakeSlice:
		f.makeSlice(x)
	case *ssa.TypeAssert:
		f.typeAssert(x)
	case *ssa.Jump:
		f.edgeTo(in.Block(), in.Block().Succs[0], nil, t.cur)
	case *ssa.If:
		c := f.val(x.Cond)
		bt, be := in.Block().Succs[0], in.Block().Succs[1]
		tb := f.phiStub(in.Block(), bt)
		eb := f.phiStub(in.Block(), be)
		t.cur.If(c.e, tb, eb)
	case *ssa.Return:
		var rs []sval
		for _, r := range x.Results {
			rs = append(rs, f.val(r))
		}
		f.emitReturn(rs)
	case *ssa.Panic:
		f.check(False, "explicit-panic")
		t.cur.Assume(False)
	case *ssa.Go, *ssa.Send, *ssa.Select, *ssa.MakeChan, *ssa.MakeMap, *ssa.MapUpdate, *ssa.Lookup, *ssa.Range, *ssa.Next:
		f.unsupported(in, fmt.Sprintf("%T", in))
	default:
		fail("unsupported instruction %T: %s", in, in)
	}
}

// phiStub returns the IVL block that an edge from->to must target: when `to`
// starts with phis an intermediate block assigns them.
func (f *frame) phiStub(from, to *ssa.BasicBlock) *Block {
	target := f.phiStub0(from, to)
	t := f.t
	if f.parent == nil && t.hasStmtSites {
		f.stmtSite(nil) // make sure the site tables exist
		if sites := t.edgeSites[[2]*ssa.BasicBlock{from, to}]; len(sites) > 0 {
			eb := t.proc.NewBlock("edge-site")
			saved := t.cur
			t.cur = eb
			for _, s := range sites {
				f.fireSite(s)
			}
			t.cur.Goto(target)
			t.cur = saved
			return eb
		}
	}
	return target
}

func (f *frame) phiStub0(from, to *ssa.BasicBlock) *Block {
	t := f.t
	var phis []*ssa.Phi
	for _, in := range to.Instrs {
		if p, ok := in.(*ssa.Phi); ok {
			phis = append(phis, p)
		} else {
			break
		}
	}
	if len(phis) == 0 {
		return f.blocks[to]
	}
	idx := -1
	for i, p := range to.Preds {
		if p == from {
			idx = i
		}
	}
	stub := t.proc.NewBlock("phi")
	for _, p := range phis {
		if _, ok := f.vals[p]; !ok {
			c := &Cell{f.prefix + p.Name(), t.th.SortOf(p.Type())}
			f.vals[p] = sval{e: c, typ: p.Type()}
		}
		v := f.val(p.Edges[idx])
		stub.Assign(f.vals[p].e.(*Cell), v.e)
	}
	stub.Goto(f.blocks[to])
	return stub
}

func (f *frame) edgeTo(from, to *ssa.BasicBlock, cond Expr, cur *Block) {
	cur.Goto(f.phiStub(from, to))
}

// sameLoad: two loads of the same address in one basic block with nothing but pure
// instructions between them (naive SSA form re-loads a local for every use).
func sameLoad(a, b ssa.Value) bool {
	la, ok1 := a.(*ssa.UnOp)
	lb, ok2 := b.(*ssa.UnOp)
	if !ok1 || !ok2 || la.Op != token.MUL || lb.Op != token.MUL || la.X != lb.X || la.Block() != lb.Block() {
		return false
	}
	in := false
	for _, ins := range la.Block().Instrs {
		if ins == ssa.Instruction(la) || ins == ssa.Instruction(lb) {
			if in {
				return true
			}
			in = true
			continue
		}
		if in {
			switch ins.(type) {
			case *ssa.BinOp, *ssa.UnOp, *ssa.Convert, *ssa.ChangeType, *ssa.DebugRef, *ssa.IndexAddr, *ssa.FieldAddr:
			default:
				return false
			}
		}
	}
	return false
}

// orExact makes x|y exact in the int theory for the shapes the repository uses:
// a constant operand (each run of one-bits is set), or a field that was cleared
// with &^mask and is filled with a value confined to that mask.
func (f *frame) orExact(x *ssa.BinOp, a, b, res Expr) Expr {
	t := f.t
	setRuns := func(v Expr, c *big.Int) Expr {
		e := v
		for s := 0; s < c.BitLen(); {
			if c.Bit(s) == 0 {
				s++
				continue
			}
			n := 0
			for c.Bit(s+n) == 1 {
				n++
			}
			fld := IMul(mk("mod", SInt, mk("div", SInt, v, BigLit(pow2(s))), BigLit(pow2(n))), BigLit(pow2(s)))
			full := BigLit(new(big.Int).Lsh(new(big.Int).Sub(pow2(n), bigOne), uint(s)))
			e = IAdd(ISub(e, fld), full)
			s += n
		}
		return e
	}
	w, signed, _ := intInfo(x.Type())
	if signed {
		return res
	}
	_ = w
	if c, ok := litInt(b); ok && c.Sign() >= 0 {
		return setRuns(a, c)
	}
	if c, ok := litInt(a); ok && c.Sign() >= 0 {
		return setRuns(b, c)
	}
	// rotation: v<<k | v>>(w-k) of the same unsigned v: the two parts have no bit in common
	rot := func(l, r ssa.Value) bool {
		lb, ok1 := l.(*ssa.BinOp)
		rb, ok2 := r.(*ssa.BinOp)
		if !ok1 || !ok2 || lb.Op != token.SHL || rb.Op != token.SHR {
			return false
		}
		// the same value: the same SSA value, or (naive form) two loads that translate to the same term
		if lb.X != rb.X && !sameLoad(lb.X, rb.X) {
			return false
		}
		lk, ok1 := lb.Y.(*ssa.Const)
		rk, ok2 := rb.Y.(*ssa.Const)
		if !ok1 || !ok2 || lk.Value == nil || rk.Value == nil {
			return false
		}
		a1, e1 := constant.Int64Val(constant.ToInt(lk.Value))
		a2, e2 := constant.Int64Val(constant.ToInt(rk.Value))
		return e1 && e2 && a1 > 0 && a2 > 0 && a1+a2 == int64(w)
	}
	if rot(x.X, x.Y) || rot(x.Y, x.X) {
		if t.th.named32 && w == 32 {
			sh := x.X.(*ssa.BinOp)
			if sh.Op != token.SHL {
				sh = x.Y.(*ssa.BinOp)
			}
			k, _ := constant.Int64Val(constant.ToInt(sh.Y.(*ssa.Const).Value))
			usedRolsMu.Lock()
			usedRols[int(k)] = true
			usedRolsMu.Unlock()
			return mk(fmt.Sprintf("u32.rol%d", k), SInt, f.val(sh.X).e)
		}
		return IAdd(a, b)
	}
	// cleared field | confined value
	try := func(clearedV ssa.Value, cleared, other Expr) bool {
		bo, ok := clearedV.(*ssa.BinOp)
		if !ok || bo.Op != token.AND_NOT {
			return false
		}
		k, ok := bo.Y.(*ssa.Const)
		if !ok || k.Value == nil {
			return false
		}
		m, ok := new(big.Int).SetString(k.Value.ExactString(), 10)
		if !ok {
			return false
		}
		s, n, ok := shiftedMask(m)
		if !ok {
			return false
		}
		confined := Eq(other, IMul(mk("mod", SInt, mk("div", SInt, other, BigLit(pow2(s))), BigLit(pow2(n))), BigLit(pow2(s))))
		t.cur.Assume(Implies(confined, Eq(res, IAdd(cleared, other))))
		return true
	}
	if !try(x.X, a, b) {
		try(x.Y, b, a)
	}
	return res
}

// unsupported: an instruction outside the verified subset (goroutines, channels,
// maps). It is sound to continue only if the point is unreachable under the
// contract's preconditions, so that becomes an obligation.
func (f *frame) unsupported(in ssa.Instruction, what string) {
	t := f.t
	what = strings.TrimPrefix(what, "*ssa.")
	if t.fc.Concurrent {
		// a goroutine fragment verified under a rely condition: anything another goroutine may
		// do happens here; values received are arbitrary
		f.interfere()
		if v, ok := in.(ssa.Value); ok {
			if tup, ok := v.Type().(*types.Tuple); ok {
				var out []sval
				for i := 0; i < tup.Len(); i++ {
					out = append(out, sval{e: t.havocTemp("recv", t.th.SortOf(tup.At(i).Type()), tup.At(i).Type()), typ: tup.At(i).Type()})
				}
				f.tuples[v] = out
				f.vals[v] = sval{typ: v.Type()}
				return
			}
			if _, isChan := v.Type().Underlying().(*types.Chan); isChan {
				r := t.havocTemp("chan", t.th.Addr(), v.Type())
				t.cur.Assume(Not(Eq(r, t.th.AddrLit(0))))
				f.setVal(v, sval{e: r, typ: v.Type()})
				return
			}
			f.setVal(v, sval{e: t.havocTemp("recv", t.th.SortOf(v.Type()), v.Type()), typ: v.Type()})
		}
		return
	}
	t.cur.Assert(False, "subset/unreachable-"+what, t.fc.Props)
	t.cur.Assume(False)
	t.outside[what]++
	if v, ok := in.(ssa.Value); ok {
		if tup, ok := v.Type().(*types.Tuple); ok {
			var out []sval
			for i := 0; i < tup.Len(); i++ {
				out = append(out, sval{e: t.havocTemp("dead", t.th.SortOf(tup.At(i).Type()), nil), typ: tup.At(i).Type()})
			}
			f.tuples[v] = out
			f.vals[v] = sval{typ: v.Type()}
			return
		}
		f.setVal(v, sval{e: t.havocTemp("dead", t.th.SortOf(v.Type()), nil), typ: v.Type()})
	}
}

// interfere: an interference point of a goroutine fragment. Every heap / memory / global cell
// is havocked (another goroutine may have written it), except what the contract declares
// stable; captured variables shared with other closures are havocked too.
func (f *frame) interfere() {
	t := f.t
	top := t.top
	env := &specEnv{f: top, names: map[string]sval{}, fn: top.fn}
	type keep struct {
		heap *Cell
		obj  Expr
		val  Expr
	}
	var keeps []keep
	stableCells := map[string]bool{}
	for _, sname := range t.fc.Stable {
		se, err := ParseSpec(sname)
		if err != nil {
			fail("%v", err)
		}
		if id, ok := se.(*SIdent); ok {
			// a captured variable that only this goroutine writes
			stableCells[id.Name] = true
			continue
		}
		for _, lv := range top.specLvals(se, env) {
			if lv.kind == lvField {
				obj := t.newTemp("stobj", lv.idx)
				keeps = append(keeps, keep{lv.heap, obj, t.newTemp("stval", Select(lv.heap, obj))})
			}
		}
	}
	names := append([]string{}, t.gorder...)
	for _, n := range t.preGlobals {
		if _, ok := t.globals[n.Name]; !ok {
			t.global(n.Name, n.S)
			names = append(names, n.Name)
		}
	}
	sort.Strings(names)
	for _, n := range names {
		if n == "allocTop" || n == "objTop" {
			continue
		}
		if _, isConst := t.constGlobals[n]; isConst {
			continue
		}
		if n == "H_$rdData" || n == "H_$rdLen" || n == "H_$rdErr" {
			continue // immutable ghost
		}
		t.cur.Havoc(t.globals[n])
	}
	for _, k := range keeps {
		t.cur.Assign(k.heap, Store(k.heap, k.obj, k.val))
	}
	// captured variables
	for fv, sv := range top.freeVars {
		if sv.lv != nil && sv.lv.kind == lvCell && !stableCells[fv.Name()] {
			t.cur.Havoc(sv.lv.cell)
			t.assumeInv(sv.lv.cell, sv.lv.typ)
		}
	}
	t.assumptions["rely condition (goroutine fragment): no other goroutine writes "+strings.Join(t.fc.Stable, ", ")] = true
}

func (f *frame) mulPattern(x *ssa.BinOp, a, b, res Expr) Expr {
	t := f.t
	// offset * (mLen / offset)
	try := func(m ssa.Value, q ssa.Value) (Expr, bool) {
		bo, ok := q.(*ssa.BinOp)
		if !ok || bo.Op != token.QUO {
			// through a load of the same cell? naive form loads locals each time
			return nil, false
		}
		if !sameSource(bo.Y, m) {
			return nil, false
		}
		_, signed, _ := intInfo(x.Type())
		if signed {
			return nil, false
		}
		num := f.val(bo.X).e
		den := f.val(m).e
		r := t.havocTemp("rem", SInt, nil)
		t.cur.Assume(Implies(IGt(den, IntLit(0)), And(ILe(IntLit(0), r), ILt(r, den), ILe(r, num))))
		// r is the remainder of this very division: num == den * (num / den) + r
		if q := f.val(bo).e; q != nil {
			t.cur.Assume(Implies(IGt(den, IntLit(0)), Eq(num, IAdd(IMul(den, q), r))))
		}
		return ISub(num, r), true
	}
	if e, ok := try(x.X, x.Y); ok {
		return e
	}
	if e, ok := try(x.Y, x.X); ok {
		return e
	}
	return res
}

// sameSource: two SSA values are loads of the same local with no intervening store (conservative: same Alloc, same block).
func sameSource(a, b ssa.Value) bool {
	if a == b {
		return true
	}
	la, ok1 := a.(*ssa.UnOp)
	lb, ok2 := b.(*ssa.UnOp)
	if !ok1 || !ok2 || la.Op != token.MUL || lb.Op != token.MUL || la.X != lb.X {
		return false
	}
	if _, ok := la.X.(*ssa.Alloc); !ok {
		return false
	}
	if la.Block() != lb.Block() {
		return false
	}
	// no store to that alloc between the two loads
	in := false
	for _, i := range la.Block().Instrs {
		if i == ssa.Instruction(la) || i == ssa.Instruction(lb) {
			if in {
				return true
			}
			in = true
			continue
		}
		if in {
			if st, ok := i.(*ssa.Store); ok && st.Addr == la.X {
				return false
			}
		}
	}
	return false
}

func (f *frame) alloc(x *ssa.Alloc) {
	t := f.t
	th := t.th
	elem := x.Type().(*types.Pointer).Elem()
	name := x.Comment
	switch u := elem.Underlying().(type) {
	case *types.Struct:
		if u.NumFields() == 0 {
			// empty struct (e.g. binary.LittleEndian's receiver): no identity needed
			f.setVal(x, sval{e: th.AddrLit(7), typ: x.Type()})
			f.addName(name, x, sval{e: f.vals[x].e, typ: x.Type()})
			return
		}
		// fresh object
		obj := t.newTemp("obj", t.objTop())
		t.cur.Assign(t.objTop(), th.AAdd(t.objTop(), th.AddrLit(1)))
		f.zeroStruct(obj, elem)
		sv := sval{e: obj, typ: x.Type()}
		f.setVal(x, sv)
		f.addName(name, x, sval{e: f.vals[x].e, typ: x.Type()})
	case *types.Array:
		// fresh region in element memory
		n := u.Len()
		base := t.newTemp("arr", t.allocTop())
		t.cur.Assign(t.allocTop(), th.AAdd(t.allocTop(), th.AddrLit(n+1)))
		t.cur.Assume(th.ALt(t.allocTop(), th.AddrLit(addrLimit)))
		f.zeroRange(t.mem(u.Elem()), base, n, u.Elem())
		f.setVal(x, sval{e: base, typ: x.Type()})
		f.addName(name, x, sval{e: f.vals[x].e, typ: x.Type()})
	default:
		c := &Cell{fmt.Sprintf("%s%s@%s", f.prefix, sanitize(name), x.Name()), th.SortOf(elem)}
		t.cur.Assign(c, th.Zero(elem))
		lv := &lval{kind: lvCell, cell: c, typ: elem}
		f.vals[x] = sval{typ: x.Type(), lv: lv}
		f.addName(name, x, sval{e: c, typ: elem, lv: lv})
		t.cellTyp[c.Name] = elem
	}
}

// addName registers a named local; declarations are kept in source order (name@k).
func (f *frame) addName(name string, x *ssa.Alloc, sv sval) {
	if f.namePos == nil {
		f.namePos = map[string][]token.Pos{}
	}
	pos := x.Pos()
	list, ps := f.names[name], f.namePos[name]
	i := len(list)
	for i > 0 && ps[i-1] > pos {
		i--
	}
	list = append(list, sval{})
	copy(list[i+1:], list[i:])
	list[i] = sv
	ps = append(ps, 0)
	copy(ps[i+1:], ps[i:])
	ps[i] = pos
	f.names[name], f.namePos[name] = list, ps
}

func (f *frame) zeroStruct(obj Expr, typ types.Type) {
	t := f.t
	n, st := namedStruct(typ)
	if n == nil {
		fail("anonymous struct type %s", typ)
	}
	for i := 0; i < st.NumFields(); i++ {
		ft := st.Field(i).Type()
		switch u := ft.Underlying().(type) {
		case *types.Struct:
			if _, isNamed := ft.(*types.Named); isNamed {
				f.zeroStruct(t.embObj(obj, n, i), ft)
			}
		case *types.Array:
			f.zeroRange(t.mem(u.Elem()), t.embArr(obj, n, i), u.Len(), u.Elem())
		default:
			h := t.heap(n, i)
			t.cur.Assign(h, Store(h, obj, t.th.Zero(ft)))
		}
	}
}

func (f *frame) zeroRange(mem *Cell, base Expr, n int64, elem types.Type) {
	t := f.t
	th := t.th
	z := th.Zero(elem)
	if n <= 8 {
		var e Expr = mem
		for i := int64(0); i < n; i++ {
			e = Store(e, th.AAdd(base, th.AddrLit(i)), z)
		}
		t.cur.Assign(mem, e)
		return
	}
	old := t.newTemp("memold", mem)
	t.cur.Havoc(mem)
	a := &Var{"a!z", th.Addr()}
	in := And(th.ALe(base, a), th.ALt(a, th.AAdd(base, th.AddrLit(n))))
	t.cur.Assume(&Quant{Forall: true, Vars: []*Var{a}, Body: Eq(Select(mem, a), Ite(in, z, Select(old, a))), Pats: [][]Expr{{Select(mem, a)}}})
}

func (f *frame) storeTo(addr sval, v sval, vtyp types.Type) {
	t := f.t
	if addr.lv != nil && addr.lv.kind == lvCell && v.e == nil && v.lv != nil {
		// a pointer-to-scalar held in a local (parameter spill of an inlined callee): bind statically
		if f.ptrBind == nil {
			f.ptrBind = map[string]*lval{}
		}
		if old, dup := f.ptrBind[addr.lv.cell.Name]; dup && old != v.lv {
			fail("pointer variable %s is assigned more than once", addr.lv.cell.Name)
		}
		f.ptrBind[addr.lv.cell.Name] = v.lv
		return
	}
	if v.e == nil {
		fail("store of a value without a term (closure or pointer-to-scalar escaping)")
	}
	if addr.lv != nil {
		f.store(addr.lv, v.e)
		return
	}
	// pointer to struct or array: whole-value store
	elem := addr.typ.Underlying().(*types.Pointer).Elem()
	switch u := elem.Underlying().(type) {
	case *types.Array:
		f.storeArray(addr.e, v.e, u)
	case *types.Struct:
		f.copyStruct(addr.e, v.e, elem)
	default:
		// pointer to scalar received as a plain value (parameter): element memory of that type
		mem := t.mem(elem)
		f.store(&lval{kind: lvElem, heap: mem, idx: addr.e, typ: elem}, v.e)
	}
}

func (f *frame) storeArray(base Expr, arr Expr, u *types.Array) {
	t := f.t
	th := t.th
	mem := t.mem(u.Elem())
	n := u.Len()
	t.checkWrite(mem, base, th.AAdd(base, th.AddrLit(n)), "array-store")
	if n <= 8 {
		var e Expr = mem
		for i := int64(0); i < n; i++ {
			e = Store(e, th.AAdd(base, th.AddrLit(i)), Select(arr, th.AddrLit(i)))
		}
		t.cur.Assign(mem, e)
		return
	}
	old := t.newTemp("memold", mem)
	t.cur.Havoc(mem)
	a := &Var{"a!s", th.Addr()}
	in := And(th.ALe(base, a), th.ALt(a, th.AAdd(base, th.AddrLit(n))))
	t.cur.Assume(&Quant{Forall: true, Vars: []*Var{a}, Body: Eq(Select(mem, a), Ite(in, Select(arr, th.ASub(a, base)), Select(old, a))), Pats: [][]Expr{{Select(mem, a)}}})
}

func (f *frame) loadArray(base Expr, u *types.Array) Expr {
	t := f.t
	th := t.th
	mem := t.mem(u.Elem())
	n := u.Len()
	as := ArrayOf(th.Addr(), th.SortOf(u.Elem()))
	if n <= 8 {
		var e Expr = th.Zero(types.NewArray(u.Elem(), n))
		for i := int64(0); i < n; i++ {
			e = Store(e, th.AddrLit(i), Select(mem, th.AAdd(base, th.AddrLit(i))))
		}
		return t.newTemp("arrv", e)
	}
	c := t.freshCell("arrv", as)
	t.cur.Havoc(c)
	a := &Var{"a!l", th.Addr()}
	in := And(th.ALe(th.AddrLit(0), a), th.ALt(a, th.AddrLit(n)))
	t.cur.Assume(&Quant{Forall: true, Vars: []*Var{a}, Body: Implies(in, Eq(Select(c, a), Select(mem, th.AIdx(base, a)))), Pats: [][]Expr{{Select(c, a)}}})
	return c
}

func (f *frame) copyStruct(dstObj, srcObj Expr, typ types.Type) {
	t := f.t
	n, st := namedStruct(typ)
	if n == nil {
		fail("copy of anonymous struct")
	}
	if n.Obj().Name() == "XXHZero" && !t.th.bv {
		// the ghost view of a hash object (absorbed bytes) is copied with it
		xl, xd := t.ghost("xxhLen", SInt), t.ghost("xxhData", ArrayOf(SInt, SInt))
		t.cur.Assign(xl, Store(xl, dstObj, Select(xl, srcObj)))
		t.cur.Assign(xd, Store(xd, dstObj, Select(xd, srcObj)))
	}
	for i := 0; i < st.NumFields(); i++ {
		ft := st.Field(i).Type()
		switch u := ft.Underlying().(type) {
		case *types.Struct:
			f.copyStruct(t.embObj(dstObj, n, i), t.embObj(srcObj, n, i), ft)
		case *types.Array:
			v := f.loadArray(t.embArr(srcObj, n, i), u)
			f.storeArray(t.embArr(dstObj, n, i), v, u)
		default:
			h := t.heap(n, i)
			t.checkModField(h, dstObj)
			t.cur.Assign(h, Store(h, dstObj, Select(h, srcObj)))
		}
	}
}

func (f *frame) unop(x *ssa.UnOp) {
	t := f.t
	th := t.th
	switch x.Op {
	case token.MUL: // load
		p := f.val(x.X)
		if p.lv != nil && p.lv.kind == lvCell && f.ptrBind != nil {
			if b, ok := f.ptrBind[p.lv.cell.Name]; ok {
				f.vals[x] = sval{typ: x.Type(), lv: b}
				return
			}
		}
		if p.lv != nil {
			f.setVal(x, sval{e: f.load(p.lv), typ: x.Type()})
			return
		}
		elem := x.X.Type().Underlying().(*types.Pointer).Elem()
		switch u := elem.Underlying().(type) {
		case *types.Array:
			f.setVal(x, sval{e: f.loadArray(p.e, u), typ: x.Type()})
		case *types.Struct:
			if f.onlyCallArg(x) {
				// a struct value that is only passed to a call under contract: the callee sees
				// the fields of the original object (no copy; sound while the callee's contract
				// does not modify its by-value parameter, which Go semantics make unobservable anyway)
				f.check(Not(Eq(p.e, th.AddrLit(0))), "nil-deref")
				f.setVal(x, sval{e: p.e, typ: x.Type()})
				return
			}
			// struct value = snapshot object
			obj := t.newTemp("snap", t.objTop())
			t.cur.Assign(t.objTop(), th.AAdd(t.objTop(), th.AddrLit(1)))
			f.check(Not(Eq(p.e, th.AddrLit(0))), "nil-deref")
			f.copyStruct(obj, p.e, elem)
			f.setVal(x, sval{e: obj, typ: x.Type()})
		default:
			mem := t.mem(elem)
			f.check(Not(Eq(p.e, th.AddrLit(0))), "nil-deref")
			f.setVal(x, sval{e: f.load(&lval{kind: lvElem, heap: mem, idx: p.e, typ: elem}), typ: x.Type()})
		}
	case token.ARROW:
		f.unsupported(x, "chan-receive")
	case token.NOT:
		f.setVal(x, sval{e: Not(f.val(x.X).e), typ: x.Type()})
	case token.SUB:
		v := f.val(x.X)
		if th.bv {
			f.setVal(x, sval{e: mk("bvneg", v.e.Sort(), v.e), typ: x.Type()})
		} else {
			f.setVal(x, sval{e: th.wrap(ISub(IntLit(0), v.e), x.Type(), true), typ: x.Type()})
		}
	case token.XOR:
		v := f.val(x.X)
		if th.bv {
			f.setVal(x, sval{e: mk("bvnot", v.e.Sort(), v.e), typ: x.Type()})
		} else {
			w, signed, _ := intInfo(x.Type())
			if signed {
				f.setVal(x, sval{e: ISub(IntLit(-1), v.e), typ: x.Type()})
			} else {
				f.setVal(x, sval{e: ISub(BigLit(new(bigInt).Sub(pow2(w), bigOne)), v.e), typ: x.Type()})
			}
		}
	default:
		fail("unsupported unop %s", x.Op)
	}
}

// onlyCallArg: every use of the loaded struct value is as an argument of a call to a
// repository function that has a (non-inline) contract.
func (f *frame) onlyCallArg(x *ssa.UnOp) bool {
	refs := x.Referrers()
	if refs == nil || len(*refs) == 0 {
		return false
	}
	for _, r := range *refs {
		switch c := r.(type) {
		case *ssa.DebugRef:
			continue
		case *ssa.Call:
			callee := c.Call.StaticCallee()
			if callee == nil {
				return false
			}
			fc := f.t.eng.contracts[contractKey(callee)]
			if fc == nil || fc.Inline {
				return false
			}
		default:
			return false
		}
	}
	return true
}

func (f *frame) convert(x *ssa.Convert) {
	t := f.t
	v := f.val(x.X)
	from, to := x.X.Type(), x.Type()
	if _, _, ok := intInfo(from); ok {
		if _, _, ok2 := intInfo(to); ok2 {
			e, err := t.th.Convert(v.e, from, to)
			if err != nil {
				fail("%v", err)
			}
			f.setVal(x, sval{e: e, typ: to})
			return
		}
	}
	// string <-> named string, []byte <-> string: opaque
	if t.th.SortOf(from) == t.th.SortOf(to) {
		f.setVal(x, sval{e: v.e, typ: to})
		return
	}
	r := t.havocTemp("conv", t.th.SortOf(to), to)
	f.setVal(x, sval{e: r, typ: to})
}

func (f *frame) makeInterface(x *ssa.MakeInterface) {
	t := f.t
	v := f.val(x.X)
	// dynamic type tag is tracked through the uninterpreted function dyntype
	id := t.eng.typeID(x.X.Type())
	var e Expr
	switch x.X.Type().Underlying().(type) {
	case *types.Pointer:
		e = v.e // pointers keep their identity (nil pointer in interface is not nil interface: tag it)
		e = t.boxPtr(v.e, id)
	case *types.Basic:
		if b := x.X.Type().Underlying().(*types.Basic); b.Info()&types.IsString != 0 {
			// error constants: the interned string id, never 0
			e = v.e
		} else {
			e = t.havocTemp("iface", t.th.Addr(), nil)
			t.cur.Assume(Not(Eq(e, t.th.AddrLit(0))))
		}
	case *types.Slice:
		// boxed slice: remember payload through a ghost map
		b := t.havocTemp("iface", t.th.Addr(), x.Type())
		t.cur.Assume(Not(Eq(b, t.th.AddrLit(0))))
		t.cur.Assume(Eq(mk("boxed-slice", t.th.SliceSort(), b), v.e))
		e = b
	default:
		e = t.havocTemp("iface", t.th.Addr(), x.Type())
		t.cur.Assume(Not(Eq(e, t.th.AddrLit(0))))
	}
	t.cur.Assume(Eq(mk("dyntype", SInt, e), IntLit(id)))
	f.setVal(x, sval{e: e, typ: x.Type()})
}

// boxPtr: an interface holding a pointer p of dynamic type id. Distinct from 0 even if p is nil.
func (t *fnTrans) boxPtr(p Expr, id int64) Expr {
	if t.th.bv {
		fail("interfaces in bv theory")
	}
	// box = 2^41 * id + p + 2^40   (p < 2^40)
	return IAdd(IAdd(IMul(IntLit(id), IntLit(1<<41)), IntLit(1<<40)), p)
}
func (t *fnTrans) unboxPtr(b Expr, id int64) Expr {
	return ISub(ISub(b, IMul(IntLit(id), IntLit(1<<41))), IntLit(1<<40))
}

func (f *frame) typeAssert(x *ssa.TypeAssert) {
	t := f.t
	v := f.val(x.X)
	if _, isIface := x.AssertedType.Underlying().(*types.Interface); isIface {
		if x.CommaOk {
			fail("comma-ok interface assertion")
		}
		f.check(Not(Eq(v.e, t.th.AddrLit(0))), "type-assert-nil")
		f.setVal(x, sval{e: v.e, typ: x.AssertedType})
		return
	}
	id := t.eng.typeID(x.AssertedType)
	ok := And(Not(Eq(v.e, t.th.AddrLit(0))), Eq(mk("dyntype", SInt, v.e), IntLit(id)))
	var payload Expr
	switch x.AssertedType.Underlying().(type) {
	case *types.Pointer:
		payload = t.unboxPtr(v.e, id)
	case *types.Slice:
		payload = mk("boxed-slice", t.th.SliceSort(), v.e)
	default:
		payload = t.havocTemp("unbox", t.th.SortOf(x.AssertedType), x.AssertedType)
	}
	if x.CommaOk {
		okc := t.newTemp("taok", ok)
		val := t.newTemp("taval", Ite(okc, payload, t.th.Zero(x.AssertedType)))
		f.tuples[x] = []sval{{e: val, typ: x.AssertedType}, {e: okc, typ: types.Typ[types.Bool]}}
		f.vals[x] = sval{typ: x.Type()}
		return
	}
	f.check(ok, "type-assert")
	res := t.newTemp("ta", payload)
	if inv := t.typeInv(res, x.AssertedType); inv != nil {
		t.cur.Assume(inv)
	}
	f.setVal(x, sval{e: res, typ: x.AssertedType})
}

func (f *frame) elemInfo(xt types.Type) (elem types.Type, isArrayPtr bool, n int64) {
	switch u := xt.Underlying().(type) {
	case *types.Slice:
		return u.Elem(), false, 0
	case *types.Pointer:
		a := u.Elem().Underlying().(*types.Array)
		return a.Elem(), true, a.Len()
	case *types.Basic: // string
		return types.Typ[types.Uint8], false, 0
	}
	fail("elemInfo %s", xt)
	return nil, false, 0
}

func (f *frame) idxExpr(v ssa.Value) (e Expr, nonneg Expr) {
	t := f.t
	th := t.th
	iv := f.val(v)
	_, signed, _ := intInfo(v.Type())
	w, _, _ := intInfo(v.Type())
	if th.bv {
		e = iv.e
		if w < 64 {
			if signed {
				e = mk(fmt.Sprintf("(_ sign_extend %d)", 64-w), BV(64), e)
			} else {
				e = mk(fmt.Sprintf("(_ zero_extend %d)", 64-w), BV(64), e)
			}
		}
		if signed {
			return e, mk("bvsge", SBool, e, BVLit64(0, 64))
		}
		// unsigned 64-bit index >= 2^63 is out of range for any length
		return e, mk("bvult", SBool, e, BVLit64(1<<63, 64))
	}
	if signed {
		return iv.e, IGe(iv.e, IntLit(0))
	}
	return iv.e, True
}

func (f *frame) indexAddr(x *ssa.IndexAddr) {
	t := f.t
	th := t.th
	base := f.val(x.X)
	elem, isArr, n := f.elemInfo(x.X.Type())
	idx, nonneg := f.idxExpr(x.Index)
	var ptr, length Expr
	if isArr {
		ptr, length = base.e, th.AddrLit(n)
		if base.e == nil {
			fail("indexaddr on array pointer without address")
		}
	} else {
		ptr, length = th.SPtr(base.e), th.SLen(base.e)
	}
	f.check(And(nonneg, th.ALt(idx, length)), "index")
	addr := t.newTemp("addr", th.AIdx(ptr, idx))
	f.vals[x] = sval{typ: x.Type(), lv: &lval{kind: lvElem, heap: t.mem(elem), idx: addr, typ: elem}}
}

func (f *frame) index(x *ssa.Index) {
	t := f.t
	th := t.th
	arr := f.val(x.X)
	idx, nonneg := f.idxExpr(x.Index)
	switch u := x.X.Type().Underlying().(type) {
	case *types.Array:
		f.check(And(nonneg, th.ALt(idx, th.AddrLit(u.Len()))), "index")
		v := t.newTemp("idx", Select(arr.e, idx))
		t.assumeInv(v, u.Elem())
		f.setVal(x, sval{e: v, typ: x.Type()})
	default:
		fail("index on %s", x.X.Type())
	}
}

func (f *frame) slice(x *ssa.Slice) {
	t := f.t
	th := t.th
	base := f.val(x.X)
	var ptr, length, capacity Expr
	switch u := x.X.Type().Underlying().(type) {
	case *types.Slice:
		ptr, length, capacity = th.SPtr(base.e), th.SLen(base.e), th.SCap(base.e)
	case *types.Pointer:
		a := u.Elem().Underlying().(*types.Array)
		ptr, length, capacity = base.e, th.AddrLit(a.Len()), th.AddrLit(a.Len())
	default:
		fail("slice of %s", x.X.Type())
	}
	zero := th.AddrLit(0)
	lo, hi, max := zero, length, capacity
	var conds []Expr
	if x.Low != nil {
		e, nn := f.idxExpr(x.Low)
		lo = e
		conds = append(conds, nn)
	}
	if x.High != nil {
		e, nn := f.idxExpr(x.High)
		hi = e
		conds = append(conds, nn)
	}
	if x.Max != nil {
		e, nn := f.idxExpr(x.Max)
		max = e
		conds = append(conds, nn)
	}
	conds = append(conds, th.ALe(lo, hi), th.ALe(hi, max), th.ALe(max, capacity))
	f.check(And(conds...), "slice")
	res := th.MkSlice(th.AAdd(ptr, lo), th.ASub(hi, lo), th.ASub(max, lo))
	f.setVal(x, sval{e: res, typ: x.Type()})
}

func (f *frame) fieldAddr(x *ssa.FieldAddr) {
	t := f.t
	base := f.val(x.X)
	n, st := namedStruct(x.X.Type())
	if n == nil {
		fail("field of anonymous struct")
	}
	if base.e == nil {
		fail("fieldaddr: base has no value (%s)", x.X.Name())
	}
	f.check(Not(Eq(base.e, t.th.AddrLit(0))), "nil-deref")
	ft := st.Field(x.Field).Type()
	switch ft.Underlying().(type) {
	case *types.Struct:
		f.setVal(x, sval{e: t.embObj(base.e, n, x.Field), typ: x.Type()})
	case *types.Array:
		f.setVal(x, sval{e: t.embArr(base.e, n, x.Field), typ: x.Type()})
	default:
		f.vals[x] = sval{typ: x.Type(), lv: &lval{kind: lvField, heap: t.heap(n, x.Field), idx: base.e, typ: ft, fld: &fieldRef{n, x.Field, st.Field(x.Field).Name()}}}
	}
}

func (f *frame) field(x *ssa.Field) {
	t := f.t
	base := f.val(x.X) // struct value = snapshot object id
	n, st := namedStruct(x.X.Type())
	if n == nil {
		fail("field of anonymous struct value")
	}
	ft := st.Field(x.Field).Type()
	switch u := ft.Underlying().(type) {
	case *types.Struct:
		f.setVal(x, sval{e: t.embObj(base.e, n, x.Field), typ: x.Type()})
	case *types.Array:
		f.setVal(x, sval{e: f.loadArray(t.embArr(base.e, n, x.Field), u), typ: x.Type()})
	default:
		f.setVal(x, sval{e: f.load(&lval{kind: lvField, heap: t.heap(n, x.Field), idx: base.e, typ: ft}), typ: x.Type()})
	}
}

func (f *frame) makeSlice(x *ssa.MakeSlice) {
	t := f.t
	th := t.th
	l, nn1 := f.idxExpr(x.Len)
	c, nn2 := f.idxExpr(x.Cap)
	f.check(And(nn1, nn2, th.ALe(l, c)), "makeslice")
	elem := x.Type().Underlying().(*types.Slice).Elem()
	if t.fc.AllocBound != nil {
		b := f.specExpr(t.fc.AllocBound.E, f.bodyEnv(false))
		t.cur.Assert(th.ALe(c, b.e), "alloc-bound/make", t.fc.Props)
	}
	base := t.newTemp("mk", th.AAdd(t.allocTop(), th.AddrLit(4096)))
	t.cur.Assign(t.allocTop(), th.AAdd(th.AAdd(base, c), th.AddrLit(1)))
	t.cur.Assume(th.ALt(t.allocTop(), th.AddrLit(addrLimit)))
	// contents zero
	mem := t.mem(elem)
	old := t.newTemp("memold", mem)
	t.cur.Havoc(mem)
	a := &Var{"a!m", th.Addr()}
	in := And(th.ALe(base, a), th.ALt(a, th.AAdd(base, c)))
	t.cur.Assume(&Quant{Forall: true, Vars: []*Var{a}, Body: Eq(Select(mem, a), Ite(in, th.Zero(elem), Select(old, a))), Pats: [][]Expr{{Select(mem, a)}}})
	f.setVal(x, sval{e: th.MkSlice(base, l, c), typ: x.Type()})
}

// ---------------------------------------------------------------------

func (f *frame) emitReturn(rs []sval) {
	t := f.t
	if f.parent != nil {
		// inlined: assign result cells, jump to join
		for i, r := range rs {
			if r.e != nil {
				t.cur.Assign(f.results[i], r.e)
			} else if r.lv != nil {
				if f.resLv == nil {
					f.resLv = map[int]*lval{}
				}
				f.resLv[i] = r.lv // pointer-to-scalar result (setters returning their receiver)
			}
		}
		if rs == nil {
			sig := f.fn.Signature
			for i := 0; i < sig.Results().Len(); i++ {
				t.cur.Assign(f.results[i], t.th.Zero(sig.Results().At(i).Type()))
			}
		}
		t.cur.Goto(f.retBlock)
		return
	}
	t.emitTopReturn(f, rs)
}

// sorted keys helper
func sortedKeys(m map[string]*Cell) []string {
	ks := make([]string, 0, len(m))
	for k := range m {
		ks = append(ks, k)
	}
	sort.Strings(ks)
	return ks
}
