package main

import (
	"fmt"
	"go/ast"
	"go/token"
	"go/types"
	"os"
	"path/filepath"
	"regexp"
	"sort"
	"strings"
	"sync"

	"golang.org/x/tools/go/packages"
	"golang.org/x/tools/go/ssa"
	"golang.org/x/tools/go/ssa/ssautil"
)

type Engine struct {
	repo        string
	verifDir    string
	tags        string
	prog        *ssa.Program
	pkgs        []*packages.Package
	allPkgs     map[string]*types.Package
	funcs       map[string]*ssa.Function // contract key -> function
	contracts   map[string]*FuncContract
	specFuncs   map[string]specFuncSig
	specLibs    map[string][]string // "<lib>.<theory>" -> SMT-LIB lines
	specLibRaw  map[string][]string // the same with (lemma ...) forms unexpanded
	lemmaAxioms map[string]string   // axiom text of a lemma -> its name
	lemmaLibs   map[string]string   // pseudo function "lemmas.<lib>" -> library key
	lemmaProps  map[string][]string
	slots       map[string]int64
	typeIDs     map[string]int64
	funcIDs     map[string]int64
	globIDs     map[string]int64
	fset        *token.FileSet
}

func NewEngine(repo, verifDir, tags string) (*Engine, error) {
	e := &Engine{repo: repo, verifDir: verifDir, tags: tags, funcs: map[string]*ssa.Function{},
		specFuncs: map[string]specFuncSig{}, specLibs: map[string][]string{}, specLibRaw: map[string][]string{}, lemmaLibs: map[string]string{}, lemmaAxioms: map[string]string{}, lemmaProps: map[string][]string{}, slots: map[string]int64{},
		typeIDs: map[string]int64{}, funcIDs: map[string]int64{}, globIDs: map[string]int64{}, allPkgs: map[string]*types.Package{}}
	cfg := &packages.Config{Mode: packages.LoadAllSyntax, Dir: repo, BuildFlags: []string{"-tags=" + tags},
		Env: append(os.Environ(), "GOFLAGS=-mod=mod", "GOPROXY=off", "GOSUMDB=off", "GOTOOLCHAIN=local")}
	pkgs, err := packages.Load(cfg, "./...")
	if err != nil {
		return nil, err
	}
	for _, p := range pkgs {
		for _, er := range p.Errors {
			return nil, fmt.Errorf("load %s: %v", p.PkgPath, er)
		}
	}
	e.pkgs = pkgs
	prog, _ := ssautil.AllPackages(pkgs, ssa.NaiveForm|ssa.GlobalDebug)
	prog.Build()
	e.prog = prog
	e.fset = prog.Fset
	packages.Visit(pkgs, nil, func(p *packages.Package) {
		if p.Types != nil {
			if _, dup := e.allPkgs[p.Types.Name()]; !dup || strings.HasPrefix(p.PkgPath, "github.com/pierrec/lz4") {
				e.allPkgs[p.Types.Name()] = p.Types
			}
		}
	})
	for fn := range ssautil.AllFunctions(prog) {
		pk := fn.Pkg
		if pk == nil && fn.Parent() != nil {
			pk = fn.Parent().Pkg
		}
		if pk == nil || !strings.HasPrefix(pk.Pkg.Path(), "github.com/pierrec/lz4") {
			continue
		}
		if strings.Contains(pk.Pkg.Path(), "/cmd/") {
			continue
		}
		if fn.Synthetic != "" && !strings.Contains(fn.Synthetic, "closure") {
			continue
		}
		e.funcs[contractKey(fn)] = fn
	}
	// deterministic field slots for struct/array typed fields
	var names []string
	byName := map[string]*types.Named{}
	for _, p := range pkgs {
		if p.Types == nil {
			continue
		}
		sc := p.Types.Scope()
		for _, n := range sc.Names() {
			if tn, ok := sc.Lookup(n).(*types.TypeName); ok {
				if nt, ok := tn.Type().(*types.Named); ok {
					if _, ok := nt.Underlying().(*types.Struct); ok {
						k := p.Types.Name() + "." + n
						names = append(names, k)
						byName[k] = nt
					}
				}
			}
		}
	}
	sort.Strings(names)
	next := int64(0)
	for _, k := range names {
		st := byName[k].Underlying().(*types.Struct)
		for i := 0; i < st.NumFields(); i++ {
			switch st.Field(i).Type().Underlying().(type) {
			case *types.Struct, *types.Array:
				e.slots[fmt.Sprintf("%s#%d", k, i)] = next
				next++
			}
		}
	}
	if next >= nFieldSlots {
		return nil, fmt.Errorf("too many embedded fields (%d)", next)
	}
	if err := e.loadSpecLibs(); err != nil {
		return nil, err
	}
	cs, err := LoadContracts(repo)
	if err != nil {
		return nil, err
	}
	e.contracts = cs
	for k, props := range e.lemmaProps {
		e.contracts[k] = &FuncContract{Name: k, Pkg: "spec", Props: props, Loops: map[int]*LoopContract{}}
	}
	return e, nil
}

func (e *Engine) findPackage(name string) *types.Package { return e.allPkgs[name] }

func (e *Engine) fieldSlot(st *types.Named, idx int) int64 {
	k := fmt.Sprintf("%s.%s#%d", st.Obj().Pkg().Name(), st.Obj().Name(), idx)
	s, ok := e.slots[k]
	if !ok {
		// types from other packages (sync.Mutex...)
		s = nFieldSlots - 1 // fields of foreign struct types share the last slot (never dereferenced)
	}
	return s
}

var canonRe = regexp.MustCompile(`\b(byte|rune|any)\b`)

func (e *Engine) typeID(t types.Type) int64 {
	k := canonRe.ReplaceAllStringFunc(types.TypeString(t, nil), func(m string) string {
		switch m {
		case "byte":
			return "uint8"
		case "rune":
			return "int32"
		}
		return "interface{}"
	})
	if id, ok := e.typeIDs[k]; ok {
		return id
	}
	id := int64(len(e.typeIDs) + 1)
	e.typeIDs[k] = id
	return id
}
func (e *Engine) funcID(fn *ssa.Function) int64 {
	k := fn.String()
	if id, ok := e.funcIDs[k]; ok {
		return id
	}
	id := int64(len(e.funcIDs) + 5000)
	e.funcIDs[k] = id
	return id
}
func (e *Engine) globalID(name string) int64 {
	if id, ok := e.globIDs[name]; ok {
		return id
	}
	id := int64(len(e.globIDs) + 1) // small root object ids reserved for globals
	e.globIDs[name] = id
	return id
}

// ---------------------------------------------------------------------
// spec libraries: /verif/spec/<lib>.<theory>.smt2

func (e *Engine) loadSpecLibs() error {
	files, _ := filepath.Glob(filepath.Join(e.verifDir, "spec", "*.smt2"))
	for _, f := range files {
		base := strings.TrimSuffix(filepath.Base(f), ".smt2")
		data, err := os.ReadFile(f)
		if err != nil {
			return err
		}
		forms, err := splitSexprs(string(data))
		if err != nil {
			return fmt.Errorf("%s: %v", f, err)
		}
		e.specLibRaw[base] = forms
		lib := strings.SplitN(base, ".", 2)[0]
		specPkgs[lib] = true
		expanded := make([]string, 0, len(forms))
		var lemmaProps []string
		for _, form := range forms {
			if strings.HasPrefix(form, "(lemma") {
				l, err := parseLemma(form)
				if err != nil {
					return fmt.Errorf("%s: %v", f, err)
				}
				expanded = append(expanded, l.axiom())
				e.lemmaAxioms[l.axiom()] = l.Name
				for _, p := range l.Props {
					if !hasProp(lemmaProps, p) {
						lemmaProps = append(lemmaProps, p)
					}
				}
				continue
			}
			expanded = append(expanded, form)
		}
		forms = expanded
		e.specLibs[base] = forms
		if lemmaProps != nil {
			e.lemmaLibs["lemmas."+lib] = base
			e.lemmaProps["lemmas."+lib] = lemmaProps
		}
		for _, form := range forms {
			name, sig, ok := parseFunSig(form)
			if ok {
				if i := strings.IndexByte(name, '.'); i > 0 {
					specPkgs[name[:i]] = true
				}
				th := ""
				if parts := strings.SplitN(base, ".", 2); len(parts) == 2 {
					th = parts[1]
				}
				if th == "" || th == "bv" {
					e.specFuncs[name+"|bv"] = sig
				}
				if th == "" || th == "int" {
					e.specFuncs[name+"|int"] = sig
				}
			}
		}
	}
	return nil
}

func splitSexprs(s string) ([]string, error) {
	var out []string
	depth := 0
	start := -1
	inComment := false
	for i, c := range s {
		if inComment {
			if c == '\n' {
				inComment = false
			}
			continue
		}
		switch c {
		case ';':
			inComment = true
		case '(':
			if depth == 0 {
				start = i
			}
			depth++
		case ')':
			depth--
			if depth == 0 {
				out = append(out, stripComments(s[start:i+1]))
			}
			if depth < 0 {
				return nil, fmt.Errorf("unbalanced parens")
			}
		}
	}
	if depth != 0 {
		return nil, fmt.Errorf("unbalanced parens at end")
	}
	return out, nil
}

func stripComments(s string) string {
	var lines []string
	for _, l := range strings.Split(s, "\n") {
		if i := strings.IndexByte(l, ';'); i >= 0 {
			l = l[:i]
		}
		lines = append(lines, l)
	}
	return strings.Join(strings.Fields(strings.Join(lines, " ")), " ")
}

// readSexpr returns the s-expression starting at s[i] and the index after it.
func readSexpr(s string, i int) (string, int) {
	for i < len(s) && s[i] == ' ' {
		i++
	}
	if i >= len(s) {
		return "", i
	}
	if s[i] != '(' {
		j := i
		for j < len(s) && s[j] != ' ' && s[j] != ')' && s[j] != '(' {
			j++
		}
		return s[i:j], j
	}
	depth := 0
	for j := i; j < len(s); j++ {
		switch s[j] {
		case '(':
			depth++
		case ')':
			depth--
			if depth == 0 {
				return s[i : j+1], j + 1
			}
		}
	}
	return s[i:], len(s)
}

func listItems(s string) []string {
	s = strings.TrimSpace(s)
	if !strings.HasPrefix(s, "(") {
		return nil
	}
	s = s[1 : len(s)-1]
	var out []string
	i := 0
	for {
		it, j := readSexpr(s, i)
		if it == "" {
			break
		}
		out = append(out, it)
		i = j
	}
	return out
}

func parseFunSig(form string) (string, specFuncSig, bool) {
	items := listItems(form)
	if len(items) < 4 {
		return "", specFuncSig{}, false
	}
	switch items[0] {
	case "declare-fun":
		var sig specFuncSig
		for _, a := range listItems(items[2]) {
			sig.Args = append(sig.Args, Sort(a))
		}
		if items[2] == "()" {
			sig.Args = nil
		}
		sig.Ret = Sort(items[3])
		return items[1], sig, true
	case "define-fun", "define-fun-rec":
		var sig specFuncSig
		for _, a := range listItems(items[2]) {
			parts := listItems(a)
			if len(parts) == 2 {
				sig.Args = append(sig.Args, Sort(parts[1]))
			}
		}
		sig.Ret = Sort(items[3])
		return items[1], sig, true
	}
	return "", specFuncSig{}, false
}

// ---------------------------------------------------------------------

// rotation amounts with a defining axiom in the prelude: those of the spec libraries, and those
// the translated code uses
var specRols = map[int]bool{1: true, 7: true, 11: true, 12: true, 13: true, 17: true, 18: true}
var usedRols = map[int]bool{}
var usedRolsMu sync.Mutex

func (e *Engine) prelude(th Theory, libs []string) []string {
	usedRolsMu.Lock()
	defer usedRolsMu.Unlock()
	p := []string{
		"(declare-datatypes ((Slice 0)) (((mk-slice (s-ptr Int) (s-len Int) (s-cap Int)))))",
		"(declare-datatypes ((SliceBV 0)) (((mk-slicebv (sb-ptr (_ BitVec 64)) (sb-len (_ BitVec 64)) (sb-cap (_ BitVec 64))))))",
	}
	if th.bv {
		p = append(p, "(declare-fun dyntype ((_ BitVec 64)) Int)", "(declare-fun boxed-slice ((_ BitVec 64)) SliceBV)")
	} else {
		p = append(p, "(declare-fun dyntype (Int) Int)", "(declare-fun boxed-slice (Int) Slice)",
			"(declare-fun idx (Int Int) Int)",
			"(assert (forall ((b Int) (i Int)) (! (= (idx b i) (+ b i)) :pattern ((idx b i)))))",
			// bitwise operations on (two's complement, unbounded) integers: uninterpreted, every fact
			// used about them is stated at the use site; functional consistency is all that is added
			"(declare-fun bit.and (Int Int) Int)", "(declare-fun bit.andnot (Int Int) Int)",
			"(declare-fun bit.or (Int Int) Int)", "(declare-fun bit.xor (Int Int) Int)",
			"(declare-fun u32.add (Int Int) Int)", "(declare-fun u32.sub (Int Int) Int)", "(declare-fun u32.mul (Int Int) Int)",
			// u32.add / u32.sub / u32.mul / u32.rolK: the wrapping 32-bit operations. Only their range is given
			// to the solvers: every use is a proof by congruence between a code term and a reference term over
			// the same symbols (valid for any functions with this range); their definitions made z3 5.1 stall
			// on obligations that never needed them.
			"(assert (forall ((a Int) (b Int)) (! (and (<= 0 (u32.add a b)) (< (u32.add a b) 4294967296)) :pattern ((u32.add a b)))))",
			"(assert (forall ((a Int) (b Int)) (! (and (<= 0 (u32.sub a b)) (< (u32.sub a b) 4294967296)) :pattern ((u32.sub a b)))))",
			"(assert (forall ((a Int) (b Int)) (! (and (<= 0 (u32.mul a b)) (< (u32.mul a b) 4294967296)) :pattern ((u32.mul a b)))))",
			"(declare-fun errInner (Int) Int)",
			"(assert (forall ((e Int)) (! (=> (and (>= e 0) (< e 1048576)) (= (errInner e) 0)) :pattern ((errInner e)))))",
			"(define-fun errIs ((e Int) (t Int)) Bool (or (= e t) (and (not (= (errInner e) 0)) (or (= (errInner e) t) (and (not (= (errInner (errInner e)) 0)) (or (= (errInner (errInner e)) t) (= (errInner (errInner (errInner e))) t)))))))")
	}
	if th.named32 {
		// rotations of a 32-bit value: the two shifted parts have no bit in common
		for k := 1; k < 32; k++ {
			if !specRols[k] && !usedRols[k] {
				continue
			}
			p = append(p, fmt.Sprintf("(declare-fun u32.rol%d (Int) Int)", k),
				fmt.Sprintf("(assert (forall ((a Int)) (! (and (<= 0 (u32.rol%d a)) (< (u32.rol%d a) 4294967296)) :pattern ((u32.rol%d a)))))", k, k, k))
		}
	}
	suffix := ".int"
	if th.bv {
		suffix = ".bv"
	}
	for _, l := range libs {
		forms, ok := e.specLibs[l+suffix]
		if !ok {
			forms, ok = e.specLibs[l]
		}
		for _, fm := range forms {
			if name, isLemma := e.lemmaAxioms[fm]; isLemma && !th.lemmas[name] {
				continue // a lemma is given to a function only when its contract asks for it (`lemmas NAME ...`)
			}
			p = append(p, fm)
		}
	}
	return p
}

// ---------------------------------------------------------------------
// translation of one function under contract

type funcResult struct {
	Key         string
	Contract    *FuncContract
	Obls        []*Obligation
	Err         string // translation / binding failure (undecided)
	Assumptions []string
	Loops       int
	SSAInstrs   int
	globals     []*Cell
}

func (e *Engine) TranslateFunc(key string) (res *funcResult) {
	fc := e.contracts[key]
	if lib, ok := e.lemmaLibs[key]; ok {
		return &funcResult{Key: key, Contract: fc, Obls: e.lemmaObligations(lib)}
	}
	if fc != nil && fc.Concurrent {
		// two passes: the first discovers every heap / memory cell the fragment touches, so that
		// interference points of the second havoc all of them
		first := e.translateFunc(key, nil)
		if first.Err != "" {
			return first
		}
		return e.translateFunc(key, first.globals)
	}
	return e.translateFunc(key, nil)
}

func (e *Engine) translateFunc(key string, preCells []*Cell) (res *funcResult) {
	fc := e.contracts[key]
	res = &funcResult{Key: key, Contract: fc}
	fn := e.funcs[key]
	if fn == nil {
		res.Err = "stale-contract: function not found in the working tree"
		return
	}
	if len(fn.Blocks) == 0 {
		res.Err = "no Go body (assembly or external)"
		return
	}
	defer func() {
		if r := recover(); r != nil {
			if te, ok := r.(transErr); ok {
				res.Err = te.msg
				return
			}
			panic(r)
		}
	}()
	var renames map[string]string
	if len(fc.Locals) > 0 {
		// locals renamed since the contract was written: same number of declarations, and every
		// declaration of the old name is now a declaration of one new name that the contract does
		// not use for anything else (the k-th declaration stays the k-th: name@k still binds)
		cur := declaredNames(fn)
		if len(cur) == len(fc.Locals) {
			positions := func(l []string, n string) string {
				var ps []string
				for i, x := range l {
					if x == n {
						ps = append(ps, itoa(i))
					}
				}
				return strings.Join(ps, ",")
			}
			for i, old := range fc.Locals {
				nw := cur[i]
				if nw == old || old == "_" || nw == "_" {
					continue
				}
				if positions(fc.Locals, old) == positions(cur, nw) && positions(fc.Locals, nw) == "" {
					if renames == nil {
						renames = map[string]string{}
					}
					renames[old] = nw
				}
			}
		}
	}
	th := Theory{bv: fc.Theory == "bv", named32: fc.Theory == "u32", lemmas: map[string]bool{}}
	for _, n := range fc.UseLemmas {
		th.lemmas[n] = true
	}
	t := &fnTrans{renames: renames, eng: e, th: th, fc: fc, fn: fn, globals: map[string]*Cell{}, cellTyp: map[string]types.Type{},
		oldSnap: map[string]*Cell{}, callSeq: map[string]int{}, assumptions: map[string]bool{}, usedSpecFuncs: map[string]bool{}, usedAsserts: map[string]bool{}, constGlobals: map[string]int64{}, outside: map[string]int{}, preGlobals: preCells}
	t.proc = &Proc{Name: key, Props: fc.Props}
	pre := t.proc.NewBlock("pre")
	t.proc.Entry = pre
	entry := t.proc.NewBlock("entry")
	f := t.newFrame(fn, nil, "")
	t.top = f
	t.cur = entry
	for _, b := range fn.Blocks {
		res.SSAInstrs += len(b.Instrs)
	}
	// parameters
	for _, p := range fn.Params {
		c := &Cell{"p$" + p.Name(), th.SortOf(p.Type())}
		entry.Havoc(c)
		t.cur = entry
		t.assumeInv(c, p.Type())
		sv := sval{e: c, typ: p.Type()}
		f.vals[p] = sv
		f.params[p.Name()] = sv
		entry.Assign(&Cell{"old$" + p.Name(), c.S}, c)
		t.cellTyp[c.Name] = p.Type()
		if _, isSlice := p.Type().Underlying().(*types.Slice); isSlice && !th.bv {
			// memory handed in by the caller was allocated before this activation
			entry.Assume(Implies(ILt(th.SPtr(c), IntLit(embArrBase)), ILe(IAdd(th.SPtr(c), th.SCap(c)), t.allocTop())))
		}
	}
	if len(fn.FreeVars) > 0 {
		// closure verified on its own: free variables are unconstrained inputs
		for _, fv := range fn.FreeVars {
			elem := fv.Type().(*types.Pointer).Elem()
			c := &Cell{"fv$" + fv.Name(), th.SortOf(elem)}
			entry.Havoc(c)
			t.assumeInv(c, elem)
			entry.Assign(&Cell{"old$" + fv.Name(), c.S}, c)
			lv := &lval{kind: lvCell, cell: c, typ: elem}
			f.freeVars[fv] = sval{typ: fv.Type(), lv: lv}
			f.params[fv.Name()] = sval{e: c, typ: elem, lv: lv}
		}
	}
	envEntry := &specEnv{f: f, names: map[string]sval{}, fn: fn, entry: true}
	for _, r := range fc.Requires {
		entry.Assume(f.specBool(r.E, envEntry))
		if r.Kind == "assumed" {
			t.assumptions["assumed precondition of "+fc.Pkg+"."+fc.Name+": "+r.Text] = true
		}
	}
	if fc.GhostEntry {
		// ghost update at entry: the listed ghost state is re-defined by the ghostdef clauses
		// (old(...) is the state the caller handed in); the clauses are proved again at exit
		t.cur = entry
		genv := f.bodyEnv(true)
		for _, g := range fc.Ghost {
			ge, err := ParseSpec(g)
			if err != nil {
				fail("%v", err)
			}
			for _, lv := range f.specLvals(ge, genv) {
				if lv.kind != lvField || !strings.HasPrefix(lv.heap.Name, "H_$") {
					fail("ghost: %s is not ghost state", g)
				}
				_, es := lv.heap.S.ArrayParts()
				v := t.havocTemp("ghost", es, lv.typ)
				t.cur.Assign(lv.heap, Store(lv.heap, lv.idx, v))
			}
		}
		for _, e := range fc.Ensures {
			if e.Kind == "ghostdef" {
				t.cur.Assume(f.specBool(e.E, genv))
			}
		}
		t.assumptions["ghost state updated at entry by definitional clauses (ghostdef) of "+fc.Pkg+"."+fc.Name] = true
	}
	// frame
	for _, m := range fc.Modifies {
		if m == "*" {
			t.modAll = true
			continue
		}
		me, err := ParseSpec(m)
		if err != nil {
			fail("%v", err)
		}
		for _, lv := range f.specLvals(me, envEntry) {
			if lv.kind == lvField {
				t.modFields = append(t.modFields, modField{lv.heap, t.newTemp("modobj", lv.idx)})
			}
		}
	}
	for _, w := range fc.Writes {
		mem, lo, hi := f.specRange(w.E, envEntry)
		t.writeRanges = append(t.writeRanges, writeRange{mem, t.newTemp("wlo", lo), t.newTemp("whi", hi)})
	}
	for _, a := range fc.Asserts {
		t.hasStmtSites = t.hasStmtSites || strings.HasPrefix(a.Site, "stmt ") || strings.HasPrefix(a.Site, "after stmt ") || strings.HasPrefix(a.Site, "end loop ")
	}
	for s := range fc.GhostAt {
		t.hasStmtSites = t.hasStmtSites || strings.HasPrefix(s, "stmt ") || strings.HasPrefix(s, "after stmt ") || strings.HasPrefix(s, "end loop ")
	}
	body := t.proc.NewBlock("body")
	t.cur.Goto(body)
	f.translateBody(body)

	var staleAsserts []Clause
	for s := range fc.GhostAt {
		if !t.usedSites[s] {
			staleAsserts = append(staleAsserts, Clause{Label: "ghost-at " + s, Site: s})
		}
	}
	for _, a := range fc.Asserts {
		if !t.usedAsserts[a.Label] {
			// the code changed under the contract: what still binds is checked, the clause that no
			// longer has a site becomes a failed obligation of its own (fail closed)
			staleAsserts = append(staleAsserts, a)
		}
	}
	// loops: bind contracts by ordinal
	heads := loopHeadsInSourceOrder(fn)
	if want := countASTLoops(e, fn); want >= 0 && want != len(heads) {
		fail("stale-contract: %d loop heads in SSA but %d loop constructs in the source", len(heads), want)
	}
	res.Loops = len(heads)
	for n := range fc.Loops {
		if n < 1 || n > len(heads) {
			// a loop of the contract is gone from the code: its invariants bind nothing any more; the
			// remaining clauses are still checked (a recursion that replaced the loop is an obligation)
			res.Assumptions = append(res.Assumptions, fmt.Sprintf("stale contract: %s has a contract for loop %d but %d loops; that loop contract is ignored", key, n, len(heads)))
		}
	}
	env := f.bodyEnv(false)
	for i, h := range heads {
		ls := &LoopSpec{Ordinal: i + 1, Props: fc.Props}
		env.loopOrd = i + 1
		if lc, ok := fc.Loops[i+1]; ok {
			for _, inv := range lc.Invs {
				ls.Invs = append(ls.Invs, NamedExpr{inv.Label, f.specBool(inv.E, env), propsOr(inv.Props, fc.Props)})
			}
			if lc.Decreases != nil {
				ls.Decreases = f.specExpr(lc.Decreases.E, env).e
			}
		}
		// allocation counters only grow (engine-level invariant, checked like any other)
		if _, used := t.globals["allocTop"]; used {
			ls.Invs = append(ls.Invs, NamedExpr{"$alloc-monotone", th.ALe(t.oldOf(t.allocTop()), t.allocTop()), fc.Props})
		}
		if _, used := t.globals["objTop"]; used {
			ls.Invs = append(ls.Invs, NamedExpr{"$obj-monotone", th.ALe(t.oldOf(t.objTop()), t.objTop()), fc.Props})
		}
		f.blocks[h].Loop = ls
	}
	// pre block: declare globals, snapshot old state
	names := append([]string{}, t.gorder...)
	sort.Strings(names)
	for _, n := range names {
		c := t.globals[n]
		pre.Havoc(c)
		if n == "allocTop" {
			pre.Assume(And(th.ALe(th.AddrLit(4096), c), th.ALt(c, th.AddrLit(addrLimit/2))))
		}
		if id, ok := t.constGlobals[n]; ok {
			pre.Assume(Eq(c, th.AddrLit(id)))
		}
		if n == "objTop" {
			pre.Assume(And(th.ALe(th.AddrLit(256), c), th.ALt(c, th.AddrLit(1<<15))))
		}
		if typ, ok := t.cellTyp[n]; ok && strings.HasPrefix(n, "G_") {
			if inv := t.typeInv(c, typ); inv != nil {
				pre.Assume(inv)
			}
		}
	}
	for _, n := range names {
		c := t.globals[n]
		pre.Assign(&Cell{"old$" + n, c.S}, c)
	}
	pre.Goto(entry)
	t.proc.RangeFact = func(c *Cell) Expr {
		// modelling device: object ids and addresses stay inside their id spaces
		if c.Name == "objTop" {
			return th.ALt(c, th.AddrLit(1<<16))
		}
		if c.Name == "allocTop" {
			return th.ALt(c, th.AddrLit(addrLimit))
		}
		if c.Name == "H_$rdData" {
			// the source's byte sequence holds bytes (also inside spec-library macros); the sink and
			// hash sequences get their ranges per read (ElemInv): a quantified axiom per incarnation is costly
			r := &Var{"r!g", th.Addr()}
			k := &Var{"k!g", SInt}
			e := Select(Select(c, r), k)
			return &Quant{Forall: true, Vars: []*Var{r, k}, Body: And(ILe(IntLit(0), e), ILt(e, IntLit(256))), Pats: [][]Expr{{e}}}
		}
		if strings.HasPrefix(c.Name, "M_") || strings.HasPrefix(c.Name, "H_") {
			return nil // element invariants are emitted per read (ElemInv)
		}
		typ, ok := t.cellTyp[c.Name]
		if !ok {
			return nil
		}
		return t.typeInv(c, typ)
	}
	t.proc.ElemInv = func(c *Cell, sel Expr) Expr {
		if th.bv {
			return nil
		}
		if c.Name == "H_$rdData" || c.Name == "H_$wrData" || c.Name == "H_$xxhData" || strings.HasPrefix(c.Name, "H_$gs_") {
			if sel.Sort() == SInt {
				return And(ILe(IntLit(0), sel), ILt(sel, IntLit(256)))
			}
			return nil
		}
		if strings.HasSuffix(c.Name, "H_$wrFail") || strings.Contains(c.Name, "H_$wrFail$") {
			// assumed of every sink: a failing Write does not report (or wrap) io.EOF
			eof := IntLit(knownErrorGlobals["io.EOF"])
			// ... and its errors are its own values, not this package's sentinels
			return And(Not(Eq(sel, eof)), Not(mk("errIs", SBool, sel, eof)), Or(Eq(sel, IntLit(0)), And(IGt(sel, IntLit(1<<20)), Eq(mk("errInner", SInt, sel), IntLit(0)))))
		}
		name := strings.TrimPrefix(c.Name, "old$")
		if i := strings.Index(name, "pre$"); i >= 0 {
			name = strings.TrimPrefix(name[i:], "pre$")
			if j := strings.LastIndex(name, "$"); j > 0 {
				name = name[:j]
			}
		}
		typ, ok := t.cellTyp[name]
		if !ok || !(strings.HasPrefix(name, "M_") || strings.HasPrefix(name, "H_")) {
			return nil
		}
		if sel.Sort() != th.SortOf(typ) {
			return nil
		}
		inv := t.typeInv(sel, typ)
		if _, isSlice := typ.Underlying().(*types.Slice); isSlice && strings.HasPrefix(name, "H_") {
			// a slice held in a field points into memory that is already allocated
			if _, used := t.globals["allocTop"]; used {
				inv = And(inv, Implies(ILt(th.SPtr(sel), IntLit(embArrBase)), ILe(IAdd(th.SPtr(sel), th.SCap(sel)), t.allocTop())))
			}
		}
		return inv
	}
	libs := append([]string{}, fc.Uses...)
	// the spec libraries of the callees' contracts: their clauses are assumed / asserted here
	var extra []string
	for l := range t.calleeLibs {
		if hasProp(libs, l) {
			continue
		}
		for fn := range t.usedSpecFuncs {
			if strings.HasPrefix(fn, l+".") {
				extra = append(extra, l) // a clause of a callee that mentions this library was instantiated here
				break
			}
		}
	}
	sort.Strings(extra)
	libs = append(libs, extra...)
	prel := e.prelude(th, libs)
	if len(fc.Opaque) > 0 {
		// proving with a defined function left uninterpreted proves it for every function
		for i, pl := range prel {
			if strings.HasPrefix(pl, "(define-fun ") {
				if name, sig, ok := parseFunSig(pl); ok && hasProp(fc.Opaque, name) {
					args := make([]string, len(sig.Args))
					for j, a := range sig.Args {
						args[j] = string(a)
					}
					prel[i] = fmt.Sprintf("(declare-fun %s (%s) %s)", name, strings.Join(args, " "), sig.Ret)
				}
			}
		}
	}
	t.proc.LemmaLine = e.lemmaAxioms
	t.proc.LemmaFor = fc.LemmaFor
	t.proc.SliceOut = fc.SliceOut
	t.proc.FactFor = fc.FactFor
	t.proc.OpaqueFor = fc.OpaqueFor
	t.proc.Focus = fc.Focus
	obls, err := GenVCs(t.proc, prel)
	if err != nil {
		res.Err = err.Error()
		return
	}
	res.Obls = obls
	for _, a := range staleAsserts {
		empty := []string{}
		res.Obls = append(res.Obls, &Obligation{Proc: key, Name: key + "/stale-contract/assert/" + a.Label, Props: propsOr(a.Props, fc.Props), script: &empty,
			goal: "(assert true)", Meta: map[string]string{"pos": fmt.Sprintf("the site %q of this contract clause no longer exists in the working tree", a.Site)}})
	}
	for _, n := range t.gorder {
		res.globals = append(res.globals, t.globals[n])
	}
	for a := range t.assumptions {
		res.Assumptions = append(res.Assumptions, a)
	}
	sort.Strings(res.Assumptions)
	return
}

func propsOr(a, b []string) []string {
	if len(a) > 0 {
		return a
	}
	return b
}

// emitTopReturn: postconditions at a return of the function under contract.
func (t *fnTrans) emitTopReturn(f *frame, rs []sval) {
	fc := t.fc
	env := f.bodyEnv(true)
	sig := f.fn.Signature
	t.retCount++
	for i, r := range rs {
		c := &Cell{fmt.Sprintf("ret$%d", i), r.e.Sort()}
		t.cur.Assign(c, r.e)
		sv := sval{e: c, typ: sig.Results().At(i).Type()}
		env.names[fmt.Sprintf("ret%d", i)] = sv
		if n := sig.Results().At(i).Name(); n != "" && n != "_" {
			env.names[n] = sv
		}
		if len(rs) == 1 {
			env.names["ret"] = sv
		}
	}
	t.cur.Cmds = append(t.cur.Cmds, Cmd{Kind: CAssert, E: False, Name: "canary/return", ExpectSat: true, Props: fc.Props})
	if len(fc.Ghost) > 0 && !fc.GhostEntry {
		// ghost update at exit: the listed ghost state is re-defined by the ghostdef clauses
		// (definitional: each clause fixes the new value in terms of the entry state)
		eenv := f.bodyEnv(true)
		for _, g := range fc.Ghost {
			ge, err := ParseSpec(g)
			if err != nil {
				fail("%v", err)
			}
			for _, lv := range f.specLvals(ge, eenv) {
				if lv.kind != lvField || !strings.HasPrefix(lv.heap.Name, "H_$") {
					fail("ghost: %s is not ghost state", g)
				}
				_, es := lv.heap.S.ArrayParts()
				v := t.havocTemp("ghost", es, lv.typ)
				t.cur.Assign(lv.heap, Store(lv.heap, lv.idx, v))
			}
		}
		for _, e := range fc.Ensures {
			if e.Kind == "ghostdef" {
				t.cur.Assume(f.specBool(e.E, env))
			}
		}
		t.assumptions["ghost state updated at exit by definitional clauses (ghostdef) of "+fc.Pkg+"."+fc.Name] = true
	}
	for _, l := range fc.Lemmas {
		// exit lemmas: proved here, usable by the postconditions that follow, not exported
		t.cur.Assert(f.specBool(l.E, env), "exit-lemma/"+l.Label, propsOr(l.Props, fc.Props))
		t.cur.Cmds[len(t.cur.Cmds)-1].Meta = map[string]string{"pos": t.posString()}
	}
	for _, e := range fc.Ensures {
		if e.Kind == "ghostdef" && !fc.GhostEntry {
			if len(fc.Ghost) == 0 {
				fail("ghostdef without ghost")
			}
			continue
		}
		t.cur.Assert(f.specBool(e.E, env), "ensures/"+e.Label, propsOr(e.Props, fc.Props))
		t.cur.Cmds[len(t.cur.Cmds)-1].Meta = map[string]string{"pos": t.posString()}
	}
	if len(fc.Updates) > 0 {
		// exact memory effect: final memory == old memory with the listed stores
		oenv := f.bodyEnv(true)
		oenv.inOld = true
		want := map[string]Expr{}
		cells := map[string]*Cell{}
		var order []string
		for _, u := range fc.Updates {
			mem, addr, v := f.specUpdate(u, oenv)
			if _, ok := want[mem.Name]; !ok {
				want[mem.Name] = t.oldOf(mem)
				cells[mem.Name] = mem
				order = append(order, mem.Name)
			}
			want[mem.Name] = Store(want[mem.Name], addr, v)
		}
		for _, n := range order {
			t.cur.Assert(Eq(cells[n], want[n]), "updates/"+strings.TrimPrefix(n, "M_"), fc.Props)
		}
	}
}

// loopHeadsInSourceOrder: targets of DFS back edges, ordered by the smallest
// source position of an instruction in the head block.
func loopHeadsInSourceOrder(fn *ssa.Function) []*ssa.BasicBlock {
	color := map[*ssa.BasicBlock]int{}
	heads := map[*ssa.BasicBlock]bool{}
	var dfs func(b *ssa.BasicBlock)
	dfs = func(b *ssa.BasicBlock) {
		color[b] = 1
		for _, s := range b.Succs {
			switch color[s] {
			case 0:
				dfs(s)
			case 1:
				heads[s] = true
			}
		}
		color[b] = 2
	}
	dfs(fn.Blocks[0])
	var out []*ssa.BasicBlock
	for h := range heads {
		out = append(out, h)
	}
	pos := func(b *ssa.BasicBlock) token.Pos {
		best := token.Pos(1 << 40)
		for _, in := range b.Instrs {
			p := in.Pos()
			if d, ok := in.(*ssa.DebugRef); ok {
				p = d.Expr.Pos()
			}
			if p.IsValid() && p < best {
				best = p
			}
		}
		return best
	}
	sort.Slice(out, func(i, j int) bool {
		pi, pj := pos(out[i]), pos(out[j])
		if pi != pj {
			return pi < pj
		}
		return out[i].Index < out[j].Index
	})
	return out
}

// declaredNames: the names a function declares, in source order: receiver, parameters, named
// results, then every local variable (closures' own declarations excluded). A contract records this
// list (`locals ...`); when the code's list has the same length and differs only in names, the
// contract's identifiers are renamed by position, so that renaming a local is not an alarm.
func declaredNames(fn *ssa.Function) []string {
	syn := fn.Syntax()
	if syn == nil {
		return nil
	}
	var typ *ast.FuncType
	var body *ast.BlockStmt
	var recv *ast.FieldList
	switch s := syn.(type) {
	case *ast.FuncDecl:
		typ, body, recv = s.Type, s.Body, s.Recv
	case *ast.FuncLit:
		typ, body = s.Type, s.Body
	}
	if body == nil {
		return nil
	}
	var out []string
	fields := func(fl *ast.FieldList) {
		if fl == nil {
			return
		}
		for _, f := range fl.List {
			for _, n := range f.Names {
				out = append(out, n.Name)
			}
		}
	}
	fields(recv)
	fields(typ.Params)
	fields(typ.Results)
	ast.Inspect(body, func(x ast.Node) bool {
		switch s := x.(type) {
		case *ast.FuncLit:
			return false
		case *ast.AssignStmt:
			if s.Tok == token.DEFINE {
				for _, l := range s.Lhs {
					if id, ok := l.(*ast.Ident); ok && id.Name != "_" && id.Obj != nil && id.Obj.Pos() == id.Pos() {
						out = append(out, id.Name)
					}
				}
			}
		case *ast.ValueSpec:
			for _, n := range s.Names {
				if n.Name != "_" {
					out = append(out, n.Name)
				}
			}
		case *ast.RangeStmt:
			if s.Tok == token.DEFINE {
				for _, l := range []ast.Expr{s.Key, s.Value} {
					if id, ok := l.(*ast.Ident); ok && id.Name != "_" {
						out = append(out, id.Name)
					}
				}
			}
		case *ast.TypeSwitchStmt:
			if a, ok := s.Assign.(*ast.AssignStmt); ok && len(a.Lhs) == 1 {
				if id, ok := a.Lhs[0].(*ast.Ident); ok {
					out = append(out, id.Name)
				}
			}
		}
		return true
	})
	return out
}

// countASTLoops: number of for/range statements plus labels that are the target of a backward goto.
func countASTLoops(e *Engine, fn *ssa.Function) int {
	syn := fn.Syntax()
	if syn == nil {
		return -1
	}
	var body *ast.BlockStmt
	switch s := syn.(type) {
	case *ast.FuncDecl:
		body = s.Body
	case *ast.FuncLit:
		body = s.Body
	}
	if body == nil {
		return -1
	}
	n := 0
	labels := map[string]token.Pos{}
	ast.Inspect(body, func(x ast.Node) bool {
		switch s := x.(type) {
		case *ast.FuncLit:
			return false
		case *ast.ForStmt, *ast.RangeStmt:
			n++
		case *ast.LabeledStmt:
			labels[s.Label.Name] = s.Pos()
		}
		return true
	})
	ast.Inspect(body, func(x ast.Node) bool {
		if _, ok := x.(*ast.FuncLit); ok {
			return false
		}
		if b, ok := x.(*ast.BranchStmt); ok && b.Tok == token.GOTO && b.Label != nil {
			if lp, ok := labels[b.Label.Name]; ok && lp < b.Pos() {
				n++
				delete(labels, b.Label.Name)
			}
		}
		return true
	})
	return n
}

// reaches: can `from` (transitively, through static calls inside the repository) call `to`?
func (e *Engine) reaches(from, to *ssa.Function) bool {
	seen := map[*ssa.Function]bool{}
	var dfs func(fn *ssa.Function) bool
	dfs = func(fn *ssa.Function) bool {
		if fn == to {
			return true
		}
		if seen[fn] || fn == nil {
			return false
		}
		seen[fn] = true
		if fn.Pkg == nil || !strings.HasPrefix(fn.Pkg.Pkg.Path(), "github.com/pierrec/lz4") {
			return false
		}
		for _, b := range fn.Blocks {
			for _, in := range b.Instrs {
				var cc *ssa.CallCommon
				switch c := in.(type) {
				case *ssa.Call:
					cc = c.Common()
				case *ssa.Defer:
					cc = c.Common()
				case *ssa.Go:
					cc = c.Common()
				}
				if cc == nil {
					continue
				}
				if callee := cc.StaticCallee(); callee != nil && dfs(callee) {
					return true
				}
			}
		}
		return false
	}
	return dfs(from)
}
