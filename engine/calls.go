package main

// Calls: builtins, trusted standard-library contracts, inlining, contract calls, defers.

import (
	"strconv"
	"regexp"
	"fmt"
	"go/ast"
	"go/token"
	"go/types"
	"math/big"
	"os"
	"sort"
	"strings"

	"golang.org/x/tools/go/ssa"
)

type bigInt = big.Int

var bigOne = big.NewInt(1)

func (f *frame) setResults(x *ssa.Call, rs []sval) {
	sig := x.Call.Signature()
	switch sig.Results().Len() {
	case 0:
		f.vals[x] = sval{typ: x.Type()}
	case 1:
		if rs[0].e == nil {
			f.vals[x] = rs[0]
		} else {
			f.setVal(x, rs[0])
		}
	default:
		// tuple: every component becomes a register cell
		var out []sval
		for i, r := range rs {
			c := &Cell{fmt.Sprintf("%s%s.%d", f.prefix, x.Name(), i), r.e.Sort()}
			f.t.cur.Assign(c, r.e)
			out = append(out, sval{e: c, typ: r.typ})
		}
		f.tuples[x] = out
		f.vals[x] = sval{typ: x.Type()}
	}
}

func (f *frame) call(x *ssa.Call) {
	c := x.Common()
	f.siteAsserts(x)
	rs := f.callCommon(c, x.Name(), false)
	f.setResults(x, rs)
}

func contractKey(fn *ssa.Function) string {
	pkg := ""
	if fn.Pkg != nil {
		pkg = fn.Pkg.Pkg.Name()
	} else if fn.Parent() != nil && fn.Parent().Pkg != nil {
		pkg = fn.Parent().Pkg.Pkg.Name()
	}
	if recv := fn.Signature.Recv(); recv != nil {
		t := recv.Type()
		if p, ok := t.(*types.Pointer); ok {
			t = p.Elem()
		}
		if n, ok := t.(*types.Named); ok {
			return pkg + "." + n.Obj().Name() + "." + fn.Name()
		}
	}
	if fn.Parent() != nil {
		return pkg + "." + fn.Name() // closures: Parent$1
	}
	return pkg + "." + fn.Name()
}

func (f *frame) callCommon(c *ssa.CallCommon, site string, deferred bool) []sval {
	t := f.t
	if bi, ok := c.Value.(*ssa.Builtin); ok {
		return f.builtin(bi, c)
	}
	if c.IsInvoke() {
		return f.invoke(c)
	}
	if mc, ok := c.Value.(*ssa.MakeClosure); ok {
		// immediately-applied or deferred closure: inline with bindings
		fn := mc.Fn.(*ssa.Function)
		var args []sval
		for _, a := range c.Args {
			args = append(args, f.val(a))
		}
		var binds []sval
		for _, b := range mc.Bindings {
			binds = append(binds, f.val(b))
		}
		return f.inline(fn, args, binds, deferred)
	}
	callee := c.StaticCallee()
	if callee == nil {
		return f.dynamicCall(c)
	}
	var args []sval
	for _, a := range c.Args {
		args = append(args, f.val(a))
	}
	full := callee.String()
	if h, ok := trustedCalls[full]; ok {
		t.assumptions["trusted contract: "+full] = true
		return h(f, c, args)
	}
	key := contractKey(callee)
	fc := t.eng.contracts[key]
	if t.eng.reaches(callee, t.fn) {
		// (mutual) recursion: the stack depth would follow the input; bounded depth is not
		// something a per-call contract shows, so recursion on a verified path is an obligation failure
		t.cur.Assert(False, "termination/no-recursion/"+callee.Name(), t.fc.Props)
		t.cur.Cmds[len(t.cur.Cmds)-1].Meta = map[string]string{"pos": t.posString()}
	}
	if fc != nil && !fc.Inline && !hasProp(t.fc.InlineCalls, fc.Name) {
		return f.contractCall(fc, callee, args)
	}
	if callee.Pkg == nil || !strings.HasPrefix(callee.Pkg.Pkg.Path(), "github.com/pierrec/lz4") {
		fail("call to %s: no trusted contract", full)
	}
	if len(callee.Blocks) == 0 {
		fail("call to %s: external body and no contract", full)
	}
	if !loopFree(callee) {
		fail("call to %s: has loops and no contract", full)
	}
	return f.inline(callee, args, nil, deferred)
}

func (f *frame) inline(callee *ssa.Function, args []sval, binds []sval, deferred bool) []sval {
	t := f.t
	if f.depth > 10 {
		fail("inline depth exceeded at %s", callee.Name())
	}
	if !loopFree(callee) {
		fail("cannot inline %s: has loops", callee.Name())
	}
	t.callSeq["inl:"+callee.Name()]++
	prefix := fmt.Sprintf("%s%s#%d$", f.prefix, callee.Name(), t.callSeq["inl:"+callee.Name()])
	nf := t.newFrame(callee, f, prefix)
	nf.deferredBy = nil
	if deferred {
		nf.deferredBy = f
	}
	for i, p := range callee.Params {
		a := args[i]
		a.typ = p.Type()
		nf.vals[p] = a
		nf.params[p.Name()] = a
	}
	for i, fv := range callee.FreeVars {
		nf.freeVars[fv] = binds[i]
	}
	sig := callee.Signature
	var out []sval
	for i := 0; i < sig.Results().Len(); i++ {
		rt := sig.Results().At(i).Type()
		c := &Cell{fmt.Sprintf("%sret%d", prefix, i), t.th.SortOf(rt)}
		nf.results = append(nf.results, c)
		out = append(out, sval{e: c, typ: rt})
	}
	nf.retBlock = t.proc.NewBlock(prefix + "join")
	entry := t.proc.NewBlock(prefix + "entry")
	t.cur.Goto(entry)
	nf.translateBody(entry)
	t.cur = nf.retBlock
	for i, lv := range nf.resLv {
		out[i] = sval{typ: out[i].typ, lv: lv}
	}
	return out
}

// ---------------------------------------------------------------------
// defers

func (f *frame) deferInstr(x *ssa.Defer) {
	t := f.t
	for _, ds := range f.defers {
		if ds.instr == x {
			ds.args = []sval{}
			for i, a := range x.Call.Args {
				v := f.val(a)
				if i < len(ds.argCells) && ds.argCells[i] != nil && v.e != nil {
					t.cur.Assign(ds.argCells[i], v.e)
					v.e = ds.argCells[i]
				}
				ds.args = append(ds.args, v)
			}
			if mc, ok := x.Call.Value.(*ssa.MakeClosure); ok {
				for _, b := range mc.Bindings {
					ds.binds = append(ds.binds, f.val(b))
				}
			}
			ds.translated = true
			t.cur.Assign(ds.flag, True)
			return
		}
	}
	fail("defer site not found")
}

func (f *frame) runDefers() {
	t := f.t
	for i := len(f.defers) - 1; i >= 0; i-- {
		ds := f.defers[i]
		if !ds.translated {
			continue // not yet reached in reverse post-order: cannot have run
		}
		thenB := t.proc.NewBlock("defer-run")
		join := t.proc.NewBlock("defer-join")
		t.cur.If(ds.flag, thenB, join)
		t.cur = thenB
		t.cur.Assign(ds.flag, False)
		c := ds.instr.Call
		if mc, ok := c.Value.(*ssa.MakeClosure); ok {
			f.inline(mc.Fn.(*ssa.Function), ds.args, ds.binds, true)
		} else if callee := c.StaticCallee(); callee != nil && !c.IsInvoke() {
			full := callee.String()
			key := contractKey(callee)
			fc := t.eng.contracts[key]
			if h, ok := trustedCalls[full]; ok {
				h(f, &c, ds.args)
			} else if fc != nil && !fc.Inline {
				f.contractCall(fc, callee, ds.args)
			} else {
				f.inline(callee, ds.args, nil, true)
			}
		} else if bi, ok := c.Value.(*ssa.Builtin); ok {
			f.builtinArgs(bi, &c, ds.args)
		} else {
			fail("unsupported deferred call %s", c.String())
		}
		t.cur.Goto(join)
		t.cur = join
	}
}

// ---------------------------------------------------------------------
// builtins

func (f *frame) builtin(bi *ssa.Builtin, c *ssa.CallCommon) []sval {
	var args []sval
	for _, a := range c.Args {
		args = append(args, f.val(a))
	}
	return f.builtinArgs(bi, c, args)
}

func (f *frame) builtinArgs(bi *ssa.Builtin, c *ssa.CallCommon, args []sval) []sval {
	t := f.t
	th := t.th
	intT := types.Typ[types.Int]
	toInt := func(e Expr) Expr { return e } // lengths are Int in int theory, bv64 in bv theory
	switch bi.Name() {
	case "len":
		switch u := c.Args[0].Type().Underlying().(type) {
		case *types.Slice:
			return []sval{{e: toInt(th.SLen(args[0].e)), typ: intT}}
		case *types.Array:
			return []sval{{e: th.IntConst(big.NewInt(u.Len()), intT), typ: intT}}
		case *types.Pointer:
			a := u.Elem().Underlying().(*types.Array)
			return []sval{{e: th.IntConst(big.NewInt(a.Len()), intT), typ: intT}}
		case *types.Basic:
			r := t.havocTemp("strlen", th.SortOf(intT), intT)
			t.cur.Assume(th.SLe(th.IntConst(big.NewInt(0), intT), r))
			return []sval{{e: r, typ: intT}}
		}
		fail("len of %s", c.Args[0].Type())
	case "cap":
		switch u := c.Args[0].Type().Underlying().(type) {
		case *types.Slice:
			return []sval{{e: th.SCap(args[0].e), typ: intT}}
		case *types.Array:
			return []sval{{e: th.IntConst(big.NewInt(u.Len()), intT), typ: intT}}
		case *types.Chan:
			r := t.havocTemp("chancap", th.SortOf(intT), intT)
			return []sval{{e: r, typ: intT}}
		}
		fail("cap of %s", c.Args[0].Type())
	case "copy":
		return []sval{{e: f.copyBuiltin(args[0], args[1], c.Args[0].Type()), typ: intT}}
	case "append":
		return []sval{f.appendBuiltin(args[0], args[1], c.Args[0].Type())}
	case "recover":
		// only meaningful when called directly by a deferred function
		df := f.deferredBy
		if df == nil || df.panicking == nil {
			return []sval{{e: th.AddrLit(0), typ: bi.Type().(*types.Signature).Results().At(0).Type()}}
		}
		r := t.newTemp("recovered", Ite(df.panicking, th.AddrLit(1), th.AddrLit(0)))
		t.cur.Assign(df.panicking, False)
		return []sval{{e: r, typ: types.NewInterfaceType(nil, nil)}}
	case "ssa:deferstack":
		return []sval{{e: th.AddrLit(0), typ: c.Signature().Results().At(0).Type()}}
	case "ssa:wrapnilchk":
		return []sval{args[0]}
	case "print", "println":
		return nil
	case "close":
		if t.fc.Concurrent {
			f.interfere()
			return nil
		}
		t.cur.Assert(False, "subset/unreachable-close-chan", t.fc.Props)
		t.cur.Assume(False)
		return nil
	}
	fail("unsupported builtin %s", bi.Name())
	return nil
}

// memUpdate: mem' agrees with old outside [lo,hi) and with gen(a) inside.
func (t *fnTrans) memUpdate(mem *Cell, lo, hi Expr, gen func(old Expr, a Expr) Expr) {
	th := t.th
	// constant small length: an explicit chain of stores (no quantifier)
	if !th.bv && gen != nil {
		if n, ok := litInt(simplifyDiff(hi, lo)); ok && n.Sign() >= 0 && n.Int64() <= 16 {
			old := t.newTemp("memold", mem)
			var e Expr = old
			for i := int64(0); i < n.Int64(); i++ {
				a := th.AAdd(lo, th.AddrLit(i))
				e = Store(e, a, gen(old, a))
			}
			t.cur.Assign(mem, e)
			return
		}
	}
	old := t.newTemp("memold", mem)
	t.cur.Havoc(mem)
	a := &Var{"a!c", th.Addr()}
	in := And(th.ALe(lo, a), th.ALt(a, hi))
	var inside Expr
	if gen != nil {
		inside = gen(old, a)
	}
	var body Expr
	if inside != nil {
		body = Eq(Select(mem, a), Ite(in, inside, Select(old, a)))
	} else {
		body = Implies(Not(in), Eq(Select(mem, a), Select(old, a)))
	}
	t.cur.AssumeL(&Quant{Forall: true, Vars: []*Var{a}, Body: body, Pats: [][]Expr{{Select(mem, a)}}}, "$mem")
	if !th.bv {
		_, es := mem.S.ArrayParts()
		if es == SInt {
			// element range is a type invariant of the memory (re-established by loads)
		}
	}
}

func (f *frame) copyBuiltin(dst, src sval, dtyp types.Type) Expr {
	t := f.t
	th := t.th
	var elem types.Type = types.Typ[types.Uint8]
	if s, ok := dtyp.Underlying().(*types.Slice); ok {
		elem = s.Elem()
	}
	mem := t.mem(elem)
	dl, sl := th.SLen(dst.e), th.SLen(src.e)
	n := t.newTemp("copyn", Ite(th.ALe(dl, sl), dl, sl))
	dp := t.newTemp("copyd", th.SPtr(dst.e))
	sp := t.newTemp("copys", th.SPtr(src.e))
	t.checkWrite(mem, dp, th.AAdd(dp, n), "copy")
	t.memUpdate(mem, dp, th.AAdd(dp, n), func(old, a Expr) Expr {
		return Select(old, th.AIdx(sp, th.ASub(a, dp)))
	})
	return n
}

func (f *frame) appendBuiltin(s, e sval, styp types.Type) sval {
	t := f.t
	th := t.th
	elem := styp.Underlying().(*types.Slice).Elem()
	mem := t.mem(elem)
	sp, sl, sc := th.SPtr(s.e), th.SLen(s.e), th.SCap(s.e)
	var ep, el Expr
	if _, isStr := e.typ.Underlying().(*types.Basic); isStr {
		fail("append of string")
	}
	ep, el = th.SPtr(e.e), th.SLen(e.e)
	newLen := t.newTemp("applen", th.AAdd(sl, el))
	fits := th.ALe(newLen, sc)
	inB := t.proc.NewBlock("append-inplace")
	grB := t.proc.NewBlock("append-grow")
	join := t.proc.NewBlock("append-join")
	res := t.freshCell("appres", th.SliceSort())
	t.cur.If(fits, inB, grB)
	// in place
	t.cur = inB
	lo := th.AAdd(sp, sl)
	t.checkWrite(mem, lo, th.AAdd(sp, newLen), "append")
	t.memUpdate(mem, lo, th.AAdd(sp, newLen), func(old, a Expr) Expr {
		return Select(old, th.AAdd(ep, th.ASub(a, lo)))
	})
	t.cur.Assign(res, th.MkSlice(sp, newLen, sc))
	t.cur.Goto(join)
	// grow
	t.cur = grB
	if t.fc.AllocBound != nil {
		b := f.specExpr(t.fc.AllocBound.E, f.bodyEnv(false))
		t.cur.Assert(th.ALe(newLen, b.e), "alloc-bound/append", t.fc.Props)
	}
	nc := t.havocTemp("newcap", th.Addr(), nil)
	t.cur.Assume(And(th.ALe(newLen, nc), th.ALt(nc, th.AddrLit(addrLimit/2))))
	base := t.newTemp("appbase", th.AAdd(t.allocTop(), th.AddrLit(4096)))
	t.cur.Assign(t.allocTop(), th.AAdd(th.AAdd(base, nc), th.AddrLit(1)))
	t.cur.Assume(th.ALt(t.allocTop(), th.AddrLit(addrLimit)))
	t.memUpdate(mem, base, th.AAdd(base, newLen), func(old, a Expr) Expr {
		off := th.ASub(a, base)
		return Ite(th.ALt(off, sl), Select(old, th.AAdd(sp, off)), Select(old, th.AAdd(ep, th.ASub(off, sl))))
	})
	t.cur.Assign(res, th.MkSlice(base, newLen, nc))
	t.cur.Goto(join)
	t.cur = join
	return sval{e: res, typ: styp}
}

// ---------------------------------------------------------------------
// contract calls

type callEnv struct {
	names   map[string]sval
	oldMap  map[string]*Cell // cell name -> snapshot cell, for old()
	results []sval
	inOld   bool
}

func (f *frame) contractCall(fc *FuncContract, callee *ssa.Function, args []sval) []sval {
	t := f.t
	th := t.th
	t.callSeq[fc.Name]++
	if t.calleeLibs == nil {
		t.calleeLibs = map[string]bool{}
	}
	if fc.Theory == t.fc.Theory {
		for _, l := range fc.Uses {
			t.calleeLibs[l] = true
		}
	}
	site := fmt.Sprintf("%s#%d", fc.Name, t.callSeq[fc.Name])
	env := &specEnv{f: f, names: map[string]sval{}, fn: callee, atCall: true}
	if (fc.Theory == "bv") != th.bv {
		// The callee's body is verified against the other reading of the same contract text.
		env.crossTheory = true
		t.assumptions["cross-theory contract use (clause read in "+map[bool]string{true: "bv", false: "int"}[th.bv]+" here, proved in the other theory): "+fc.Pkg+"."+fc.Name] = true
	}
	for i, p := range callee.Params {
		a := args[i]
		a.typ = p.Type()
		if a.e == nil && a.lv != nil {
			// pointer to scalar: pass as lvalue; contracts dereference with *p
		}
		env.names[p.Name()] = a
	}
	for _, r := range fc.Requires {
		if r.Kind == "typeinv" {
			// an invariant of the callee's (encapsulated) type: holds in every state a client can observe
			t.assumptions["type invariant of "+fc.Pkg+"."+strings.SplitN(fc.Name, ".", 2)[0]+" (established by the zero value, preserved by every method, fields unexported)"] = true
			continue
		}
		if r.Kind == "assumed" {
			t.assumptions["assumed precondition of "+fc.Pkg+"."+fc.Name+": "+r.Text] = true
			continue
		}
		e := f.specBool(r.E, env)
		t.cur.Assert(e, "pre/"+site+"/"+r.Label, mergeProps(t.fc.Props, nil))
	}
	sinkPlans := f.planSinks(fc, callee, args)
	if fc.Pure && len(fc.Modifies) == 0 && len(fc.Writes) == 0 {
		// no state change
	} else {
		// frame of the callee, evaluated in the pre-state
		type wr struct {
			mem    *Cell
			lo, hi Expr
		}
		var ws []wr
		for _, w := range fc.Writes {
			mem, lo, hi := f.specRange(w.E, env)
			lo = t.newTemp("wlo", lo)
			hi = t.newTemp("whi", hi)
			t.checkWrite(mem, lo, hi, "call/"+site)
			ws = append(ws, wr{mem, lo, hi})
		}
		type mf struct {
			heap *Cell
			obj  Expr
			typ  types.Type
		}
		var ms []mf
		for _, m := range fc.Modifies {
			if m == "*" {
				fail("call to %s: callee has `modifies *`", fc.Name)
			}
			me, err := ParseSpec(m)
			if err != nil {
				fail("%v", err)
			}
			for _, lv := range f.specLvals(me, env) {
				obj := t.newTemp("mobj", lv.idx)
				t.checkModField(lv.heap, obj)
				ms = append(ms, mf{lv.heap, obj, lv.typ})
			}
		}
		// exact updates, evaluated in the pre-state
		type upd struct {
			mem     *Cell
			addr, v Expr
		}
		var ups []upd
		exact := map[string]bool{}
		for _, u := range fc.Updates {
			mem, addr, v := f.specUpdate(u, env)
			ups = append(ups, upd{mem, t.newTemp("uaddr", addr), t.newTemp("uval", v)})
			exact[mem.Name] = true
		}
		// snapshot for old()
		env.oldMap = map[string]*Cell{}
		snap := func(c *Cell) {
			if _, ok := env.oldMap[c.Name]; ok {
				return
			}
			o := t.freshCell("pre$"+c.Name, c.S)
			t.cur.Assign(o, c)
			env.oldMap[c.Name] = o
		}
		for _, w := range ws {
			snap(w.mem)
		}
		for _, m := range ms {
			snap(m.heap)
		}
		if !fc.Pure {
			snap(t.allocTop())
			snap(t.objTop())
		}
		// havoc
		byMem := map[string][]wr{}
		var memOrder []string
		for _, w := range ws {
			if _, ok := byMem[w.mem.Name]; !ok {
				memOrder = append(memOrder, w.mem.Name)
			}
			byMem[w.mem.Name] = append(byMem[w.mem.Name], w)
		}
		for _, u := range ups {
			t.cur.Assign(u.mem, Store(u.mem, u.addr, u.v))
		}
		for _, name := range memOrder {
			if exact[name] {
				continue
			}
			list := byMem[name]
			mem := list[0].mem
			old := env.oldMap[name]
			t.cur.Havoc(mem)
			a := &Var{"a!w", th.Addr()}
			var ins []Expr
			for _, w := range list {
				ins = append(ins, And(th.ALe(w.lo, a), th.ALt(a, w.hi)))
			}
			t.cur.Assume(&Quant{Forall: true, Vars: []*Var{a}, Body: Implies(Not(Or(ins...)), Eq(Select(mem, a), Select(old, a))), Pats: [][]Expr{{Select(mem, a)}}})
		}
		for _, m := range ms {
			_, es := m.heap.S.ArrayParts()
			v := t.havocTemp("mod", es, m.typ)
			t.cur.Assign(m.heap, Store(m.heap, m.obj, v))
		}
		if !fc.Pure {
			ot := t.newTemp("preTop", t.allocTop())
			t.cur.Havoc(t.allocTop())
			t.cur.Assume(And(th.ALe(ot, t.allocTop()), th.ALt(t.allocTop(), th.AddrLit(addrLimit))))
			oo := t.newTemp("preObj", t.objTop())
			t.cur.Havoc(t.objTop())
			t.cur.Assume(And(th.ALe(oo, t.objTop()), th.ALt(t.objTop(), th.AddrLit(1<<16))))
		}
	}
	// results
	sig := callee.Signature
	var out []sval
	for i := 0; i < sig.Results().Len(); i++ {
		rt := sig.Results().At(i).Type()
		r := t.havocTemp(fmt.Sprintf("%s$r%d", sanitize(site), i), th.SortOf(rt), rt)
		sv := sval{e: r, typ: rt}
		out = append(out, sv)
		env.names[fmt.Sprintf("ret%d", i)] = sv
		if n := sig.Results().At(i).Name(); n != "" && n != "_" {
			env.names[n] = sv
		}
	}
	if len(out) == 1 {
		env.names["ret"] = out[0]
	}
	env.post = true
	for _, e := range fc.Ensures {
		if e.Kind == "typeinv" && fc.Pkg != t.fc.Pkg {
			// the representation invariant of another package's type: of no use to a client
			// (and stated over that package's spec library)
			continue
		}
		t.cur.Assume(f.specBool(e.E, env))
	}
	f.applySinks(sinkPlans)
	if fc.Trusted {
		t.assumptions["trusted contract (body not verified): "+fc.Pkg+"."+fc.Name] = true
	}
	return out
}

// ---------------------------------------------------------------------
// sink rule (callbacks through an interface)
//
// The caller's contract declares `sink X implements T.M`: X is an object of the caller's package
// that it passes to callees as an interface value (an io.Writer). A callee whose contract lists
// Out(param) may call param.M any number of times; for the callee that changes only the ghost
// sink, but when the actual argument is boxed(X) it really runs T.M on X. After such a call the
// caller therefore loses what T.M's (verified) contract lets T.M change -- its modifies fields and
// writes ranges on X, evaluated before the call -- and gains T.M's type invariant and those of its
// postconditions that are marked transitive.

type sinkPlan struct {
	guard  Expr
	impl   *FuncContract
	env    *specEnv
	fields []struct {
		heap *Cell
		obj  Expr
		typ  types.Type
	}
	ranges []struct {
		mem    *Cell
		lo, hi Expr
	}
}

func (f *frame) planSinks(fc *FuncContract, callee *ssa.Function, args []sval) []*sinkPlan {
	t := f.t
	if len(t.fc.Sinks) == 0 || f.parent != nil {
		return nil
	}
	var actuals []Expr
	for _, m := range fc.Modifies {
		me, err := ParseSpec(m)
		if err != nil {
			continue
		}
		c, ok := me.(*SCall)
		if !ok || c.Fun != "Out" || len(c.Args) != 1 {
			continue
		}
		id, ok := c.Args[0].(*SIdent)
		if !ok {
			continue
		}
		for i, p := range callee.Params {
			if p.Name() == id.Name && args[i].e != nil {
				actuals = append(actuals, args[i].e)
			}
		}
	}
	if len(actuals) == 0 {
		return nil
	}
	// snapshot of the pre-call state for old() in the implementation's transitive clauses
	snaps := map[string]*Cell{}
	for _, n := range append([]string{}, t.gorder...) {
		c := t.globals[n]
		o := t.freshCell("sinkpre$"+sanitize(n), c.S)
		t.cur.Assign(o, c)
		snaps[n] = o
	}
	var plans []*sinkPlan
	for _, sd := range t.fc.Sinks {
		impl := t.eng.contracts[t.fc.Pkg+"."+sd.Impl]
		implFn := t.eng.funcs[t.fc.Pkg+"."+sd.Impl]
		if impl == nil || implFn == nil || impl.Trusted {
			fail("sink: %s has no verified contract", sd.Impl)
		}
		oe, err := ParseSpec(sd.Obj)
		if err != nil {
			fail("%v", err)
		}
		objv := f.specExpr(oe, f.bodyEnv(false))
		if objv.typ == nil {
			fail("sink: %s is untyped", sd.Obj)
		}
		boxed := t.boxPtr(objv.e, t.eng.typeID(objv.typ))
		var g []Expr
		for _, a := range actuals {
			g = append(g, Eq(a, boxed))
		}
		pl := &sinkPlan{guard: t.newTemp("sinkg", Or(g...)), impl: impl}
		objT := t.newTemp("sinkobj", objv.e)
		pl.env = &specEnv{f: f, names: map[string]sval{implFn.Params[0].Name(): {e: objT, typ: objv.typ}}, fn: implFn, atCall: true, oldMap: snaps}
		for _, m := range impl.Modifies {
			me, err := ParseSpec(m)
			if err != nil {
				fail("%v", err)
			}
			for _, lv := range f.specLvals(me, pl.env) {
				if strings.HasPrefix(lv.heap.Name, "H_$") {
					continue // ghost state: the callee's own Out(...) frame covers the sink's ghost view
				}
				ob := t.newTemp("sinkf", lv.idx)
				// the implementation's frame must lie inside the caller's own
				t.checkModField(lv.heap, Ite(pl.guard, ob, th0(t)))
				pl.fields = append(pl.fields, struct {
					heap *Cell
					obj  Expr
					typ  types.Type
				}{lv.heap, ob, lv.typ})
			}
		}
		for _, w := range impl.Writes {
			mem, lo, hi := f.specRange(w.E, pl.env)
			lo = t.newTemp("sinkwlo", lo)
			hi = t.newTemp("sinkwhi", hi)
			t.checkWrite(mem, Ite(pl.guard, lo, hi), hi, "sink/"+sd.Impl)
			pl.ranges = append(pl.ranges, struct {
				mem    *Cell
				lo, hi Expr
			}{mem, t.newTemp("sinklo", lo), t.newTemp("sinkhi", hi)})
		}
		plans = append(plans, pl)
		t.assumptions["sink rule: callees reach "+sd.Obj+" only through "+sd.Impl+" (interface call); its verified frame, type invariant and transitive postconditions are applied after each such callee"] = true
	}
	return plans
}

func th0(t *fnTrans) Expr { return t.th.AddrLit(0) }

func (f *frame) applySinks(plans []*sinkPlan) {
	t := f.t
	th := t.th
	for _, pl := range plans {
		for _, fl := range pl.fields {
			_, es := fl.heap.S.ArrayParts()
			nv := t.havocTemp("sinknv", es, fl.typ)
			t.cur.Assign(fl.heap, Store(fl.heap, fl.obj, Ite(pl.guard, nv, Select(fl.heap, fl.obj))))
		}
		byMem := map[string][]int{}
		var order []string
		for i, r := range pl.ranges {
			if _, ok := byMem[r.mem.Name]; !ok {
				order = append(order, r.mem.Name)
			}
			byMem[r.mem.Name] = append(byMem[r.mem.Name], i)
		}
		for _, name := range order {
			mem := pl.ranges[byMem[name][0]].mem
			old := t.newTemp("sinkmem", mem)
			t.cur.Havoc(mem)
			a := &Var{"a!k", th.Addr()}
			var ins []Expr
			for _, i := range byMem[name] {
				r := pl.ranges[i]
				ins = append(ins, And(th.ALe(r.lo, a), th.ALt(a, r.hi)))
			}
			// memory allocated during the call (a grown overflow slice) may be written as well
			ins = append(ins, th.ALe(pl.env.oldMap["allocTop"], a))
			t.cur.Assume(&Quant{Forall: true, Vars: []*Var{a}, Body: Implies(Not(And(pl.guard, Or(ins...))), Eq(Select(mem, a), Select(old, a))), Pats: [][]Expr{{Select(mem, a)}}})
		}
		pl.env.post = true
		for _, e := range pl.impl.Ensures {
			if e.Kind == "typeinv" || e.Kind == "transitive" {
				t.cur.Assume(Implies(pl.guard, f.specBool(e.E, pl.env)))
			}
		}
	}
}

// crossTheoryCall: caller and callee contract live in different theories. Only
// integer/bool parameters and results are supported; the contract is translated
// in the caller's theory (the dual-translation of such clauses is restricted
// to operators whose Int and BV readings coincide on in-range values).
func (f *frame) crossTheoryCall(fc *FuncContract, callee *ssa.Function, args []sval, site string) []sval {
	t := f.t
	if !fc.Pure {
		fail("cross-theory call to non-pure %s", fc.Name)
	}
	env := &specEnv{f: f, names: map[string]sval{}, fn: callee, atCall: true, crossTheory: true}
	for i, p := range callee.Params {
		a := args[i]
		a.typ = p.Type()
		env.names[p.Name()] = a
	}
	for _, r := range fc.Requires {
		t.cur.Assert(f.specBool(r.E, env), "pre/"+site+"/"+r.Label, t.fc.Props)
	}
	sig := callee.Signature
	var out []sval
	for i := 0; i < sig.Results().Len(); i++ {
		rt := sig.Results().At(i).Type()
		r := t.havocTemp(fmt.Sprintf("%s$r%d", sanitize(site), i), t.th.SortOf(rt), rt)
		sv := sval{e: r, typ: rt}
		out = append(out, sv)
		env.names[fmt.Sprintf("ret%d", i)] = sv
	}
	if len(out) == 1 {
		env.names["ret"] = out[0]
	}
	env.post = true
	for _, e := range fc.Ensures {
		if e.hasTag("bvonly") {
			continue
		}
		t.cur.Assume(f.specBool(e.E, env))
	}
	t.assumptions["cross-theory contract use (Int reading of a bv-verified clause): "+fc.Pkg+"."+fc.Name] = true
	return out
}

func mergeProps(a, b []string) []string {
	seen := map[string]bool{}
	var out []string
	for _, l := range [][]string{a, b} {
		for _, p := range l {
			if !seen[p] {
				seen[p] = true
				out = append(out, p)
			}
		}
	}
	return out
}

func (c Clause) hasTag(tag string) bool {
	return strings.HasPrefix(c.Label, tag+"-") || c.Label == tag
}

// ---------------------------------------------------------------------

func (f *frame) invoke(c *ssa.CallCommon) []sval {
	recvT := c.Value.Type()
	key := types.TypeString(recvT, nil) + "." + c.Method.Name()
	if h, ok := invokeContracts[key]; ok {
		f.t.assumptions["assumed interface contract: "+key] = true
		var args []sval
		args = append(args, f.val(c.Value))
		for _, a := range c.Args {
			args = append(args, f.val(a))
		}
		return h(f, c, args)
	}
	fail("interface call %s: no assumed contract", key)
	return nil
}

func (f *frame) dynamicCall(c *ssa.CallCommon) []sval {
	sig := c.Signature()
	key := types.TypeString(c.Value.Type(), func(p *types.Package) string { return p.Name() })
	if h, ok := dynamicContracts[key]; ok {
		var args []sval
		args = append(args, f.val(c.Value))
		for _, a := range c.Args {
			args = append(args, f.val(a))
		}
		f.t.assumptions["assumed function-type contract: "+key] = true
		return h(f, c, args)
	}
	_ = sig
	fail("dynamic call of %s: no function-type contract", key)
	return nil
}

// siteAsserts emits `assert φ @ call name#k` clauses in front of the k-th call (source order) to name.
func (f *frame) siteAsserts(x *ssa.Call) {
	t := f.t
	if f.parent != nil || (len(t.fc.Asserts) == 0 && len(t.fc.GhostAt) == 0) {
		return
	}
	if t.callSites == nil {
		t.callSites = map[ssa.Instruction]string{}
		type ent struct {
			in   ssa.Instruction
			name string
			pos  int
		}
		var all []ent
		for _, b := range f.fn.Blocks {
			for _, in := range b.Instrs {
				if c, ok := in.(*ssa.Call); ok {
					name := ""
					if bi, ok := c.Call.Value.(*ssa.Builtin); ok {
						name = bi.Name()
					} else if callee := c.Call.StaticCallee(); callee != nil {
						name = callee.Name()
					} else if c.Call.IsInvoke() {
						name = c.Call.Method.Name()
					} else if u, ok := c.Call.Value.(*ssa.UnOp); ok && u.Op == token.MUL {
						// a call through a func-typed field: the field's name
						if fa, ok := u.X.(*ssa.FieldAddr); ok {
							if st, ok := fa.X.Type().Underlying().(*types.Pointer).Elem().Underlying().(*types.Struct); ok {
								name = st.Field(fa.Field).Name()
							}
						}
					}
					if name != "" {
						all = append(all, ent{in, name, int(c.Pos())})
					}
				}
			}
		}
		sort.SliceStable(all, func(i, j int) bool { return all[i].pos < all[j].pos })
		cnt := map[string]int{}
		for _, e := range all {
			cnt[e.name]++
			t.callSites[e.in] = fmt.Sprintf("call %s#%d", e.name, cnt[e.name])
		}
	}
	site, ok := t.callSites[x]
	if !ok {
		return
	}
	f.fireSite(site)
}

// stmtSites: `@ stmt <first line of the statement>#k` sites. The k-th statement (source order)
// of the function whose first source line, trimmed, is the given text; the clauses fire in
// front of the first instruction that belongs to it. Loops are refused (their condition is
// not evaluated where the statement starts).
func (f *frame) stmtSite(in ssa.Instruction) {
	t := f.t
	if f.parent != nil || !t.hasStmtSites {
		return
	}
	if t.stmtSites == nil {
		t.stmtSites = map[ssa.Instruction][]string{}
		want := map[string]bool{}
		// a site names a statement by its text as it was when the contract was written; locals renamed
		// since then (see `locals`) are renamed in that text as well
		// both texts are compared with integer literals in decimal and without redundant blanks
		norm := func(x string) string {
			x = regexp.MustCompile(`\b0[xX][0-9a-fA-F_]+\b`).ReplaceAllStringFunc(x, func(h string) string {
				v, err := strconv.ParseUint(strings.ReplaceAll(h[2:], "_", ""), 16, 64)
				if err != nil {
					return h
				}
				return strconv.FormatUint(v, 10)
			})
			return strings.Join(strings.Fields(x), " ")
		}
		alias := map[string]string{} // text as it is in the code now -> site as written in the contract
		wantEnd := map[string]bool{}
		add := func(site string) {
			if strings.HasPrefix(site, "end loop ") {
				wantEnd[site] = true
				return
			}
			if strings.HasPrefix(site, "stmt ") || strings.HasPrefix(site, "after stmt ") {
				cur := site
				for from, to := range t.renames {
					cur = regexp.MustCompile(`\b`+regexp.QuoteMeta(from)+`\b`).ReplaceAllString(cur, to)
				}
				cur = norm(cur)
				want[cur] = true
				alias[cur] = site
			}
		}
		for _, a := range t.fc.Asserts {
			add(a.Site)
		}
		for s := range t.fc.GhostAt {
			add(s)
		}
		for _, d := range t.fc.GhostAtDefs {
			add(d.Site)
		}
		syn := f.fn.Syntax()
		if syn == nil {
			return
		}
		fset := f.fn.Prog.Fset
		file := fset.File(syn.Pos())
		src, err := os.ReadFile(file.Name())
		if err != nil {
			fail("stmt site: %v", err)
		}
		type cand struct {
			st   ast.Stmt
			site string
		}
		var cands []cand
		cnt := map[string]int{}
		ast.Inspect(syn, func(n ast.Node) bool {
			if _, ok := n.(*ast.FuncLit); ok && n != syn {
				return false
			}
			st, ok := n.(ast.Stmt)
			if !ok {
				return true
			}
			switch st.(type) {
			case *ast.BlockStmt, *ast.LabeledStmt, *ast.CaseClause, *ast.CommClause:
				return true
			}
			off := file.Offset(st.Pos())
			end := off
			for end < len(src) && src[end] != '\n' {
				end++
			}
			line := strings.TrimSpace(string(src[off:end]))
			if i := strings.Index(line, "//"); i >= 0 {
				line = strings.TrimSpace(line[:i])
			}
			line = norm(line)
			cnt[line]++
			site := fmt.Sprintf("stmt %s#%d", line, cnt[line])
			if want[site] {
				switch st.(type) {
				case *ast.ForStmt, *ast.RangeStmt:
					fail("stmt site %q is a loop statement", site)
				}
				cands = append(cands, cand{st, alias[site]})
			}
			if want["after "+site] {
				switch st.(type) {
				case *ast.AssignStmt, *ast.IncDecStmt, *ast.ExprStmt, *ast.DeclStmt:
				default:
					fail("site %q: `after` needs a simple statement", "after "+site)
				}
				cands = append(cands, cand{st, alias["after "+site]})
			}
			return true
		})
		// `end loop N`: the natural end of the body of the N-th loop (source order): on every edge to the
		// loop head (or to the post statement) that leaves the last statement of the body -- not the
		// `continue` edges of earlier statements. The clauses run in a block of their own on that edge.
		for site := range wantEnd {
			var n int
			fmt.Sscanf(site, "end loop %d", &n)
			heads := loopHeadsInSourceOrder(f.fn)
			var loops []ast.Stmt
			ast.Inspect(syn, func(nd ast.Node) bool {
				if _, ok := nd.(*ast.FuncLit); ok && nd != syn {
					return false
				}
				switch nd.(type) {
				case *ast.ForStmt, *ast.RangeStmt:
					loops = append(loops, nd.(ast.Stmt))
				}
				return true
			})
			if n < 1 || n > len(heads) || len(loops) != len(heads) {
				continue
			}
			var body *ast.BlockStmt
			switch l := loops[n-1].(type) {
			case *ast.ForStmt:
				body = l.Body
			case *ast.RangeStmt:
				body = l.Body
			}
			if body == nil || len(body.List) == 0 {
				continue
			}
			lastSt := body.List[len(body.List)-1]
			hasContinue := false
			ast.Inspect(lastSt, func(nd ast.Node) bool {
				if b, ok := nd.(*ast.BranchStmt); ok && b.Tok == token.CONTINUE {
					hasContinue = true
				}
				return true
			})
			if hasContinue {
				fail("site %q: the last statement of the loop body contains a continue", site)
			}
			h := heads[n-1]
			target := h
			for _, p := range h.Preds {
				if p.Comment == "for.post" && len(p.Succs) == 1 {
					target = p
				}
			}
			for _, p := range target.Preds {
				if p.Index <= target.Index && target == h {
					continue // entry edge
				}
				var lastPos token.Pos
				for k := len(p.Instrs) - 1; k >= 0; k-- {
					if q := p.Instrs[k].Pos(); q.IsValid() {
						lastPos = q
						break
					}
				}
				if lastPos.IsValid() && lastPos >= lastSt.Pos() && lastPos < lastSt.End() {
					if t.edgeSites == nil {
						t.edgeSites = map[[2]*ssa.BasicBlock][]string{}
					}
					key := [2]*ssa.BasicBlock{p, target}
					t.edgeSites[key] = append(t.edgeSites[key], site)
				}
			}
		}
		for _, c := range cands {
			var first ssa.Instruction
			after := strings.HasPrefix(c.site, "after ")
		search:
			for _, b := range f.fn.Blocks {
				for i, in := range b.Instrs {
					if p := in.Pos(); p.IsValid() && p >= c.st.Pos() && p < c.st.End() {
						first = in
						if after {
							// `after stmt`: in front of the first instruction of the same block that follows the
							// statement's last one (instructions without a position belong to what precedes them)
							last := i
							for k := i + 1; k < len(b.Instrs); k++ {
								if q := b.Instrs[k].Pos(); q.IsValid() && q >= c.st.Pos() && q < c.st.End() {
									last = k
								}
							}
							k := last + 1
							for k < len(b.Instrs)-1 && !b.Instrs[k].Pos().IsValid() {
								k++
							}
							if k >= len(b.Instrs) {
								k = len(b.Instrs) - 1
							}
							first = b.Instrs[k]
						}
						break search
					}
				}
			}
			if first != nil {
				t.stmtSites[first] = append(t.stmtSites[first], c.site)
			}
		}
	}
	for _, site := range t.stmtSites[in] {
		f.fireSite(site)
	}
}

// fireSite: the ghost updates and assert / rely clauses bound to a site, in front of it.
func (f *frame) fireSite(site string) {
	t := f.t
	if t.usedSites == nil {
		t.usedSites = map[string]bool{}
	}
	t.usedSites[site] = true
	if lvs, ok := t.fc.GhostAt[site]; ok {
		// initial ghost state of an object this function allocated (definitional)
		env := f.bodyEnv(false)
		env.oldMap = map[string]*Cell{}
		for _, g := range lvs {
			ge, err := ParseSpec(g)
			if err != nil {
				fail("%v", err)
			}
			for _, lv := range f.specLvals(ge, env) {
				if lv.kind != lvField || !strings.HasPrefix(lv.heap.Name, "H_$") {
					fail("ghost-at: %s is not ghost state", g)
				}
				if _, ok := env.oldMap[lv.heap.Name]; !ok {
					o := t.freshCell("presite$"+sanitize(lv.heap.Name), lv.heap.S)
					t.cur.Assign(o, lv.heap)
					env.oldMap[lv.heap.Name] = o
				}
				_, es := lv.heap.S.ArrayParts()
				t.cur.Assign(lv.heap, Store(lv.heap, lv.idx, t.havocTemp("ghost", es, lv.typ)))
			}
		}
		for _, d := range t.fc.GhostAtDefs {
			if d.Site == site {
				t.cur.AssumeL(f.specBool(d.E, env), d.Label)
			}
		}
		t.assumptions["initial ghost state of an object allocated by "+t.fc.Pkg+"."+t.fc.Name+" (definitional)"] = true
	}
	for _, a := range t.fc.Asserts {
		if a.Site == site {
			t.usedAsserts[a.Label] = true
			if a.Kind == "rely" {
				if !t.fc.Concurrent {
					fail("rely clause outside a goroutine fragment")
				}
				t.cur.Assume(f.specBool(a.E, f.bodyEnv(false)))
				t.assumptions["rely condition of fragment "+t.fc.Pkg+"."+t.fc.Name+": "+a.Text] = true
				continue
			}
			t.cur.Assert(f.specBool(a.E, f.bodyEnv(false)), "assert/"+a.Label, propsOr(a.Props, t.fc.Props))
		}
	}
}

// simplifyDiff: hi - lo when hi is syntactically lo + c (or both literal).
func simplifyDiff(hi, lo Expr) Expr {
	if h, ok := litInt(hi); ok {
		if l, ok := litInt(lo); ok {
			return BigLit(new(big.Int).Sub(h, l))
		}
	}
	if a, ok := hi.(*App); ok && a.Op == "+" && len(a.Args) == 2 {
		if Print(RenameCells(a.Args[0], cellAsVar)) == Print(RenameCells(lo, cellAsVar)) {
			return a.Args[1]
		}
		// (lo' + x) + c with lo == lo' + x
		if inner, ok := a.Args[0].(*App); ok && inner.Op == "+" {
			_ = inner
		}
	}
	return mk("-", SInt, hi, lo)
}

func cellAsVar(c *Cell) Expr { return &Var{"<" + c.Name + ">", c.S} }
