package main

// Translation of specification expressions (contracts) to IVL terms.

import (
	"fmt"
	"go/constant"
	"go/types"
	"math/big"
	"strings"

	"golang.org/x/tools/go/ssa"
)

type specEnv struct {
	f           *frame
	names       map[string]sval
	fn          *ssa.Function
	atCall      bool
	post        bool
	entry       bool // evaluating at function entry (requires / writes): params only
	oldMap      map[string]*Cell
	inOld       bool
	loopOrd     int // > 0 while a loop invariant is translated: the loop's ordinal (for entry())
	crossTheory bool
	bound       map[string]bool
}

type specFuncSig struct {
	Args []Sort
	Ret  Sort
}

func (f *frame) bodyEnv(post bool) *specEnv {
	return &specEnv{f: f, names: map[string]sval{}, fn: f.fn, post: post}
}

func specFail(format string, a ...interface{}) {
	panic(transErr{"contract: " + fmt.Sprintf(format, a...)})
}

// lit marks an untyped integer literal (adapts to the other operand in bv theory)
type litMark struct{ v *big.Int }

func (f *frame) specBool(e SExpr, env *specEnv) Expr {
	v := f.specExpr(e, env)
	if v.e == nil || v.e.Sort() != SBool {
		specFail("expected a boolean: %s", sexprString(e))
	}
	return v.e
}

func sexprString(e SExpr) string { return fmt.Sprintf("%#v", e) }

func (f *frame) isSigned(v sval) bool {
	if v.typ == nil {
		return !f.t.th.bv // mathematical integers
	}
	_, s, ok := intInfo(v.typ)
	return ok && s
}

// coerce two integer operands to a common sort (bv: literal adapts; widths must match).
func (f *frame) coerce(a, b sval, la, lb *big.Int) (Expr, Expr, types.Type) {
	th := f.t.th
	if !th.bv {
		return a.e, b.e, nil
	}
	if la != nil && lb == nil {
		w := b.e.Sort().BVWidth()
		return BVLit(la, w), b.e, b.typ
	}
	if lb != nil && la == nil {
		w := a.e.Sort().BVWidth()
		return a.e, BVLit(lb, w), a.typ
	}
	if a.e.Sort() != b.e.Sort() {
		wa, wb := a.e.Sort().BVWidth(), b.e.Sort().BVWidth()
		// zero/sign-extend the narrower operand
		if wa < wb {
			return f.extend(a, wb), b.e, b.typ
		}
		return a.e, f.extend(b, wa), a.typ
	}
	t := a.typ
	if t == nil {
		t = b.typ
	}
	return a.e, b.e, t
}

func (f *frame) extend(v sval, w int) Expr {
	vw := v.e.Sort().BVWidth()
	if f.isSigned(v) && v.typ != nil {
		return mk(fmt.Sprintf("(_ sign_extend %d)", w-vw), BV(w), v.e)
	}
	return mk(fmt.Sprintf("(_ zero_extend %d)", w-vw), BV(w), v.e)
}

func asLit(e SExpr) *big.Int {
	if l, ok := e.(*SNum); ok {
		return l.V
	}
	return nil
}

func (f *frame) specExpr(e SExpr, env *specEnv) sval {
	t := f.t
	th := t.th
	switch x := e.(type) {
	case *SNum:
		if th.bv {
			return sval{e: BVLit(x.V, 64), typ: nil}
		}
		return sval{e: BigLit(x.V)}
	case *SBoolLit:
		if x.V {
			return sval{e: True, typ: types.Typ[types.Bool]}
		}
		return sval{e: False, typ: types.Typ[types.Bool]}
	case *SIdent:
		return f.specIdent(x.Name, env)
	case *SUn:
		v := f.specExpr(x.X, env)
		switch x.Op {
		case "!":
			return sval{e: Not(v.e), typ: v.typ}
		case "-":
			if th.bv {
				return sval{e: mk("bvneg", v.e.Sort(), v.e), typ: v.typ}
			}
			return sval{e: ISub(IntLit(0), v.e)}
		case "^":
			if th.bv {
				return sval{e: mk("bvnot", v.e.Sort(), v.e), typ: v.typ}
			}
		case "*":
			if v.lv != nil {
				return sval{e: f.specLoad(v.lv, env), typ: v.lv.typ}
			}
		}
		specFail("unsupported unary %s", x.Op)
	case *SBin:
		return f.specBin(x, env)
	case *SIte:
		c := f.specBool(x.C, env)
		a, b := f.specExpr(x.A, env), f.specExpr(x.B, env)
		ae, be, typ := f.coerce(a, b, asLit(x.A), asLit(x.B))
		return sval{e: Ite(c, ae, be), typ: typ}
	case *SQuant:
		name := x.Var
		v := &Var{"q!" + name, th.Addr()}
		saved, had := env.names[name]
		env.names[name] = sval{e: v, typ: types.Typ[types.Int]}
		body := f.specBool(x.Body, env)
		if had {
			env.names[name] = saved
		} else {
			delete(env.names, name)
		}
		return sval{e: &Quant{Forall: !x.Exists, Vars: []*Var{v}, Body: body, Pats: autoPatterns(body, v.Name)}, typ: types.Typ[types.Bool]}
	case *SCall:
		return f.specCall(x, env)
	case *SIndex:
		base := f.specExpr(x.X, env)
		idx := f.specIndexVal(x.I, env)
		if base.typ == nil && base.e != nil && base.e.Sort().IsArray() {
			// a ghost sequence (SMT array value): bytes (gs_) or integers (gi_)
			et := types.Type(types.Typ[types.Uint8])
			if a, ok := base.e.(*App); ok && a.Op == "select" {
				if c, ok := a.Args[0].(*Cell); ok && strings.Contains(c.Name, "H_$gi_") {
					et = types.Typ[types.Int]
				}
			}
			return sval{e: Select(base.e, idx), typ: et}
		}
		mem, ptr, elem := f.specElems(base, env)
		return sval{e: Select(mem, th.AIdx(ptr, idx)), typ: elem}
	case *SSlice:
		base := f.specExpr(x.X, env)
		_, ptr, elem := f.specElems(base, env)
		var lo Expr = th.AddrLit(0)
		if x.Lo != nil {
			lo = f.specIndexVal(x.Lo, env)
		}
		var hi Expr
		if x.Hi != nil {
			hi = f.specIndexVal(x.Hi, env)
		} else {
			hi = f.specLen(base)
		}
		capv := th.ASub(hi, lo)
		return sval{e: th.MkSlice(th.AAdd(ptr, lo), th.ASub(hi, lo), capv), typ: types.NewSlice(elem)}
	case *SField:
		return f.specField(x, env)
	case *SAddr:
		v := f.specExpr(x.X, env)
		if v.lv != nil {
			return sval{typ: types.NewPointer(v.lv.typ), lv: v.lv}
		}
		// address of embedded struct / array: value is already the id / base
		return v
	}
	specFail("unsupported expression %T", e)
	return sval{}
}

// specIndexVal evaluates an index/length expression to the address sort.
func (f *frame) specIndexVal(e SExpr, env *specEnv) Expr {
	th := f.t.th
	if l := asLit(e); l != nil {
		return th.AddrLit(l.Int64())
	}
	v := f.specExpr(e, env)
	if th.bv && v.e.Sort() != BV(64) {
		return f.extend(v, 64)
	}
	return v.e
}

func (f *frame) specLen(base sval) Expr {
	th := f.t.th
	switch u := base.typ.Underlying().(type) {
	case *types.Slice:
		return th.SLen(base.e)
	case *types.Pointer:
		if a, ok := u.Elem().Underlying().(*types.Array); ok {
			return th.AddrLit(a.Len())
		}
	case *types.Array:
		return th.AddrLit(u.Len())
	}
	specFail("len of non-sequence %v", base.typ)
	return nil
}

// specElems: memory, base pointer and element type of a slice / array reference.
func (f *frame) specElems(base sval, env *specEnv) (mem Expr, ptr Expr, elem types.Type) {
	t := f.t
	th := t.th
	if base.typ == nil {
		specFail("indexing an untyped value")
	}
	switch u := base.typ.Underlying().(type) {
	case *types.Slice:
		elem = u.Elem()
		ptr = th.SPtr(base.e)
	case *types.Pointer:
		a, ok := u.Elem().Underlying().(*types.Array)
		if !ok {
			specFail("indexing pointer to %s", u.Elem())
		}
		elem = a.Elem()
		ptr = base.e
	default:
		specFail("indexing %s", base.typ)
	}
	mem = f.specCell(t.mem(elem), env)
	return
}

// specCell resolves a global cell under old().
func (f *frame) specCell(c *Cell, env *specEnv) Expr {
	if env.inOld {
		if env.atCall {
			if o, ok := env.oldMap[c.Name]; ok {
				return o
			}
			return c
		}
		if env.oldMap != nil {
			// ghost-at: old() of the ghost state being re-defined is its value just before the site
			if o, ok := env.oldMap[c.Name]; ok {
				return o
			}
		}
		return f.t.oldOf(c)
	}
	return c
}

func (f *frame) specLoad(lv *lval, env *specEnv) Expr {
	switch lv.kind {
	case lvCell:
		return lv.cell
	case lvField, lvElem:
		return Select(f.specCell(lv.heap, env), lv.idx)
	}
	panic("specLoad")
}

func (f *frame) specIdent(name string, env *specEnv) sval {
	t := f.t
	th := t.th
	if v, ok := env.names[name]; ok {
		if v.e == nil && v.lv != nil {
			return sval{e: f.specLoad(v.lv, env), typ: v.lv.typ, lv: v.lv}
		}
		return v
	}
	switch name {
	case "nil":
		return sval{e: th.AddrLit(0), typ: types.Typ[types.UntypedNil]}
	}
	if !env.atCall {
		base, k := name, 0
		if i := strings.IndexByte(name, '@'); i >= 0 {
			base = name[:i]
			fmt.Sscanf(name[i+1:], "%d", &k)
		}
		if nn, ok := t.renames[base]; ok && f.parent == nil {
			base = nn // the local was renamed since the contract was written
			name = nn
		}
		// parameters: at entry, in postconditions and under old() -> entry value
		if p, ok := f.params[base]; ok && k == 0 && (env.entry || env.post || env.inOld) {
			oc := &Cell{"old$" + f.prefix + base, p.e.Sort()}
			if env.entry {
				return p
			}
			return sval{e: oc, typ: p.typ}
		}
		if cells, ok := f.names[base]; ok && len(cells) > 0 {
			if env.inOld {
				specFail("old(%s): %s is a local variable", name, name)
			}
			if k == 0 {
				if len(cells) > 1 {
					specFail("identifier %s is declared %d times; use %s@k", name, len(cells), name)
				}
				return cells[0]
			}
			if k > len(cells) {
				specFail("identifier %s: only %d declarations", name, len(cells))
			}
			return cells[k-1]
		}
		if p, ok := f.params[base]; ok {
			return p
		}
	}
	// package-level constant
	if env.fn != nil && env.fn.Pkg != nil {
		pkg := env.fn.Pkg.Pkg
		if env.fn.Parent() != nil && env.fn.Pkg == nil {
			pkg = env.fn.Parent().Pkg.Pkg
		}
		if obj := pkg.Scope().Lookup(name); obj != nil {
			return f.specObject(obj, env)
		}
	}
	specFail("unknown identifier %q", name)
	return sval{}
}

func (f *frame) specObject(obj types.Object, env *specEnv) sval {
	t := f.t
	th := t.th
	switch o := obj.(type) {
	case *types.Const:
		if o.Val().Kind() == constant.Int {
			v, _ := new(big.Int).SetString(o.Val().ExactString(), 10)
			if th.bv {
				w, _, ok := intInfo(o.Type())
				if !ok {
					w = 64
				}
				typ := o.Type()
				if b, isb := typ.Underlying().(*types.Basic); isb && b.Info()&types.IsUntyped != 0 {
					typ = nil
				}
				return sval{e: BVLit(v, w), typ: typ}
			}
			return sval{e: BigLit(v), typ: o.Type()}
		}
		if o.Val().Kind() == constant.String {
			// error constants (lz4errors.Error): interface value = interned string id
			return sval{e: th.AddrLit(internString(constant.StringVal(o.Val()))), typ: o.Type()}
		}
		if o.Val().Kind() == constant.Bool {
			if constant.BoolVal(o.Val()) {
				return sval{e: True, typ: o.Type()}
			}
			return sval{e: False, typ: o.Type()}
		}
	case *types.Var:
		name := "G_" + o.Pkg().Name() + "." + o.Name()
		if id, ok := knownErrorGlobals[o.Pkg().Name()+"."+o.Name()]; ok {
			return sval{e: th.AddrLit(id), typ: o.Type()}
		}
		if _, isStruct := o.Type().Underlying().(*types.Struct); isStruct {
			return sval{e: th.AddrLit(t.eng.globalID(name)), typ: types.NewPointer(o.Type())}
		}
		c := t.global(name, th.SortOf(o.Type()))
		t.cellTyp[name] = o.Type()
		return sval{e: f.specCell(c, env), typ: o.Type()}
	}
	specFail("unsupported object %s", obj)
	return sval{}
}

func (f *frame) specField(x *SField, env *specEnv) sval {
	t := f.t
	// qualified identifier pkg.Name ?
	if id, ok := x.X.(*SIdent); ok {
		if _, isVar := env.names[id.Name]; !isVar {
			if _, isLocal := f.names[id.Name]; !isLocal || env.atCall {
				if _, isParam := f.params[id.Name]; !isParam || env.atCall {
					if pkg := t.eng.findPackage(id.Name); pkg != nil {
						if obj := pkg.Scope().Lookup(x.Name); obj != nil {
							return f.specObject(obj, env)
						}
						specFail("%s.%s not found", id.Name, x.Name)
					}
				}
			}
		}
	}
	base := f.specExpr(x.X, env)
	if base.typ == nil {
		specFail("field %s of untyped value", x.Name)
	}
	n, st := namedStruct(base.typ)
	if st == nil {
		specFail("field %s of non-struct %s", x.Name, base.typ)
	}
	for i := 0; i < st.NumFields(); i++ {
		if st.Field(i).Name() != x.Name {
			continue
		}
		ft := st.Field(i).Type()
		switch ft.Underlying().(type) {
		case *types.Struct:
			return sval{e: t.embObj(base.e, n, i), typ: types.NewPointer(ft)}
		case *types.Array:
			return sval{e: t.embArr(base.e, n, i), typ: types.NewPointer(ft)}
		}
		lv := &lval{kind: lvField, heap: t.heap(n, i), idx: base.e, typ: ft}
		return sval{e: f.specLoad(lv, env), typ: ft, lv: lv}
	}
	specFail("no field %s in %s", x.Name, base.typ)
	return sval{}
}

// specLvals: modifies entries  x.f | x.* | x.f.* | g (global)
func (f *frame) specLvals(e SExpr, env *specEnv) []*lval {
	t := f.t
	if c, ok := e.(*SCall); ok && c.Fun == "Xxh" && len(c.Args) == 1 {
		v := f.specExpr(c.Args[0], env)
		return []*lval{{kind: lvField, heap: t.ghost("xxhLen", SInt), idx: v.e, typ: types.Typ[types.Int]},
			{kind: lvField, heap: t.ghost("xxhData", ArrayOf(SInt, SInt)), idx: v.e}}
	}
	if c, ok := e.(*SCall); ok && strings.HasPrefix(c.Fun, "Gs_") && len(c.Args) == 1 {
		// a named ghost byte sequence of an object: Gs_name(x) as an lvalue, gs_name(x)[i] as a value
		v := f.specExpr(c.Args[0], env)
		return []*lval{{kind: lvField, heap: t.ghost("gs_"+strings.TrimPrefix(c.Fun, "Gs_"), ArrayOf(SInt, SInt)), idx: v.e}}
	}
	if c, ok := e.(*SCall); ok && strings.HasPrefix(c.Fun, "Gi_") && len(c.Args) == 1 {
		// a named ghost integer sequence of an object (positions, lengths: no element range)
		v := f.specExpr(c.Args[0], env)
		return []*lval{{kind: lvField, heap: t.ghost("gi_"+strings.TrimPrefix(c.Fun, "Gi_"), ArrayOf(SInt, SInt)), idx: v.e}}
	}
	if c, ok := e.(*SCall); ok && strings.HasPrefix(c.Fun, "Gh_") && len(c.Args) == 1 {
		// a named ghost integer of an object: Gh_name(x) as an lvalue, gh_name(x) as a value
		v := f.specExpr(c.Args[0], env)
		return []*lval{{kind: lvField, heap: t.ghost("gh_"+strings.TrimPrefix(c.Fun, "Gh_"), SInt), idx: v.e, typ: types.Typ[types.Int]}}
	}
	if c, ok := e.(*SCall); ok && (c.Fun == "In" || c.Fun == "Out") && len(c.Args) == 1 {
		v := f.specExpr(c.Args[0], env)
		if c.Fun == "In" {
			return []*lval{{kind: lvField, heap: t.rdPos(), idx: v.e, typ: types.Typ[types.Int]}}
		}
		return []*lval{{kind: lvField, heap: t.wrLen(), idx: v.e, typ: types.Typ[types.Int]},
			{kind: lvField, heap: t.wrData(), idx: v.e}, {kind: lvField, heap: t.wrFail(), idx: v.e, typ: errorT()}}
	}
	if fe, ok := e.(*SField); ok && fe.Name == "*" {
		base := f.specExpr(fe.X, env)
		return f.allFields(base.e, base.typ)
	}
	if b, ok := e.(*SBin); ok && b.Op == "*" {
		_ = b
	}
	v := f.specExpr(e, env)
	if v.lv != nil && v.lv.kind == lvField {
		return []*lval{v.lv}
	}
	if v.lv != nil && v.lv.kind == lvCell {
		// global scalar: modelled as a heap with a single slot is overkill; treat via cell havoc
		return []*lval{v.lv}
	}
	_ = t
	specFail("modifies entry is not a field: %#v", e)
	return nil
}

func (f *frame) allFields(obj Expr, typ types.Type) []*lval {
	t := f.t
	n, st := namedStruct(typ)
	if st == nil {
		specFail("x.* on non-struct")
	}
	var out []*lval
	for i := 0; i < st.NumFields(); i++ {
		ft := st.Field(i).Type()
		switch ft.Underlying().(type) {
		case *types.Struct:
			if _, ok := ft.(*types.Named); ok {
				out = append(out, f.allFields(t.embObj(obj, n, i), ft)...)
			}
		case *types.Array:
			// arrays are memory ranges: use writes
		default:
			out = append(out, &lval{kind: lvField, heap: t.heap(n, i), idx: obj, typ: ft})
		}
	}
	return out
}

// specRange: X[a:b] as (memory cell, lo address, hi address)
func (f *frame) specRange(e SExpr, env *specEnv) (*Cell, Expr, Expr) {
	t := f.t
	th := t.th
	sl, ok := e.(*SSlice)
	if !ok {
		// whole sequence
		base := f.specExpr(e, env)
		_, ptr, elem := f.specElems(base, env)
		return t.mem(elem), ptr, th.AAdd(ptr, f.specLen(base))
	}
	base := f.specExpr(sl.X, env)
	_, ptr, elem := f.specElems(base, env)
	var lo Expr = th.AddrLit(0)
	if sl.Lo != nil {
		lo = f.specIndexVal(sl.Lo, env)
	}
	var hi Expr
	if sl.Hi != nil {
		hi = f.specIndexVal(sl.Hi, env)
	} else {
		hi = f.specLen(base)
	}
	return t.mem(elem), th.AAdd(ptr, lo), th.AAdd(ptr, hi)
}

func (f *frame) specBin(x *SBin, env *specEnv) sval {
	th := f.t.th
	boolT := types.Typ[types.Bool]
	switch x.Op {
	case "&&":
		return sval{e: And(f.specBool(x.X, env), f.specBool(x.Y, env)), typ: boolT}
	case "||":
		return sval{e: Or(f.specBool(x.X, env), f.specBool(x.Y, env)), typ: boolT}
	case "==>":
		return sval{e: Implies(f.specBool(x.X, env), f.specBool(x.Y, env)), typ: boolT}
	case "<==>":
		return sval{e: Eq(f.specBool(x.X, env), f.specBool(x.Y, env)), typ: boolT}
	}
	a, b := f.specExpr(x.X, env), f.specExpr(x.Y, env)
	la, lb := asLit(x.X), asLit(x.Y)
	if a.e == nil || b.e == nil {
		specFail("operand without value in %s", x.Op)
	}
	if a.e.Sort() == SBool || (a.e.Sort() == th.SliceSort()) {
		switch x.Op {
		case "==":
			return sval{e: Eq(a.e, b.e), typ: boolT}
		case "!=":
			return sval{e: Not(Eq(a.e, b.e)), typ: boolT}
		}
		specFail("operator %s on %s", x.Op, a.e.Sort())
	}
	ae, be, typ := f.coerce(a, b, la, lb)
	signed := false
	if typ != nil {
		_, signed, _ = intInfo(typ)
	} else if !th.bv {
		signed = true
	}
	if !th.bv {
		switch x.Op {
		case "+":
			return sval{e: IAdd(ae, be)}
		case "-":
			return sval{e: ISub(ae, be)}
		case "*":
			return sval{e: IMul(ae, be)}
		case "/":
			return sval{e: mk("div", SInt, ae, be)}
		case "%":
			return sval{e: mk("mod", SInt, ae, be)}
		case "<<":
			if lb == nil {
				specFail("<< needs a constant shift")
			}
			return sval{e: IMul(ae, BigLit(pow2(int(lb.Int64()))))}
		case ">>":
			if lb == nil {
				specFail(">> needs a constant shift")
			}
			return sval{e: mk("div", SInt, ae, BigLit(pow2(int(lb.Int64()))))}
		case "&":
			if lb != nil {
				if k, ok := isPow2(new(big.Int).Add(lb, bigOne)); ok {
					return sval{e: mk("mod", SInt, ae, BigLit(pow2(k)))}
				}
				if s, n, ok := shiftedMask(lb); ok {
					return sval{e: IMul(mk("mod", SInt, mk("div", SInt, ae, BigLit(pow2(s))), BigLit(pow2(n))), BigLit(pow2(s)))}
				}
			}
			specFail("& needs a constant mask in the int theory")
		case "==":
			return sval{e: Eq(ae, be), typ: boolT}
		case "!=":
			return sval{e: Not(Eq(ae, be)), typ: boolT}
		case "<":
			return sval{e: ILt(ae, be), typ: boolT}
		case "<=":
			return sval{e: ILe(ae, be), typ: boolT}
		case ">":
			return sval{e: IGt(ae, be), typ: boolT}
		case ">=":
			return sval{e: IGe(ae, be), typ: boolT}
		}
		specFail("operator %s not supported in the int theory", x.Op)
	}
	s := ae.Sort()
	op := map[string]string{"+": "bvadd", "-": "bvsub", "*": "bvmul", "&": "bvand", "|": "bvor", "^": "bvxor", "<<": "bvshl"}
	if o, ok := op[x.Op]; ok {
		return sval{e: mk(o, s, ae, be), typ: typ}
	}
	switch x.Op {
	case "&^":
		return sval{e: mk("bvand", s, ae, mk("bvnot", s, be)), typ: typ}
	case ">>":
		if signed {
			return sval{e: mk("bvashr", s, ae, be), typ: typ}
		}
		return sval{e: mk("bvlshr", s, ae, be), typ: typ}
	case "/":
		if signed {
			return sval{e: mk("bvsdiv", s, ae, be), typ: typ}
		}
		return sval{e: mk("bvudiv", s, ae, be), typ: typ}
	case "%":
		if signed {
			return sval{e: mk("bvsrem", s, ae, be), typ: typ}
		}
		return sval{e: mk("bvurem", s, ae, be), typ: typ}
	case "==":
		return sval{e: Eq(ae, be), typ: boolT}
	case "!=":
		return sval{e: Not(Eq(ae, be)), typ: boolT}
	}
	cmp := map[string][2]string{"<": {"bvult", "bvslt"}, "<=": {"bvule", "bvsle"}, ">": {"bvugt", "bvsgt"}, ">=": {"bvuge", "bvsge"}}
	if c, ok := cmp[x.Op]; ok {
		o := c[0]
		if signed {
			o = c[1]
		}
		return sval{e: mk(o, SBool, ae, be), typ: boolT}
	}
	specFail("operator %s", x.Op)
	return sval{}
}

var convTypes = map[string]types.Type{
	"int": types.Typ[types.Int], "int64": types.Typ[types.Int64], "int32": types.Typ[types.Int32],
	"uint": types.Typ[types.Uint], "uint64": types.Typ[types.Uint64], "uint32": types.Typ[types.Uint32],
	"uint16": types.Typ[types.Uint16], "uint8": types.Typ[types.Uint8], "byte": types.Typ[types.Uint8],
}

func (f *frame) specCall(x *SCall, env *specEnv) sval {
	t := f.t
	th := t.th
	intT := types.Typ[types.Int]
	boolT := types.Typ[types.Bool]
	arg := func(i int) sval { return f.specExpr(x.Args[i], env) }
	if ct, ok := convTypes[x.Fun]; ok && len(x.Args) == 1 {
		if l := asLit(x.Args[0]); l != nil {
			return sval{e: th.IntConst(l, ct), typ: ct}
		}
		v := arg(0)
		if th.bv {
			w, _, _ := intInfo(ct)
			vw := v.e.Sort().BVWidth()
			switch {
			case vw == w:
				return sval{e: v.e, typ: ct}
			case vw > w:
				return sval{e: mk(fmt.Sprintf("(_ extract %d 0)", w-1), BV(w), v.e), typ: ct}
			default:
				return sval{e: f.extend(v, w), typ: ct}
			}
		}
		return sval{e: th.wrap(v.e, ct, false), typ: ct}
	}
	if strings.HasPrefix(x.Fun, "as_") && len(x.Args) == 1 {
		// as_T(iface): the *T held by an interface value (meaningful when its dynamic type is *T)
		var pkg *types.Package
		if env.fn != nil && env.fn.Pkg != nil {
			pkg = env.fn.Pkg.Pkg
		} else if env.fn != nil && env.fn.Parent() != nil {
			pkg = env.fn.Parent().Pkg.Pkg
		}
		if pkg != nil {
			if obj := pkg.Scope().Lookup(strings.TrimPrefix(x.Fun, "as_")); obj != nil {
				pt := types.NewPointer(obj.Type())
				return sval{e: t.unboxPtr(arg(0).e, t.eng.typeID(pt)), typ: pt}
			}
		}
		specFail("unknown type in %s", x.Fun)
	}
	if x.Fun == "boxed" && len(x.Args) == 1 {
		// boxed(p): the interface value that holds the pointer p (what MakeInterface produces)
		v := arg(0)
		if v.typ == nil {
			specFail("boxed: untyped argument")
		}
		if _, ok := v.typ.Underlying().(*types.Pointer); !ok {
			specFail("boxed: %s is not a pointer", v.typ)
		}
		return sval{e: t.boxPtr(v.e, t.eng.typeID(v.typ)), typ: types.NewInterfaceType(nil, nil)}
	}
	if strings.HasPrefix(x.Fun, "is_") && x.Fun != "is_nil_iface" && len(x.Args) == 1 {
		// is_T(iface): the interface value holds a *T
		var pkg *types.Package
		if env.fn != nil && env.fn.Pkg != nil {
			pkg = env.fn.Pkg.Pkg
		} else if env.fn != nil && env.fn.Parent() != nil {
			pkg = env.fn.Parent().Pkg.Pkg
		}
		if pkg != nil {
			if obj := pkg.Scope().Lookup(strings.TrimPrefix(x.Fun, "is_")); obj != nil {
				pt := types.NewPointer(obj.Type())
				v := arg(0)
				return sval{e: And(Not(Eq(v.e, th.AddrLit(0))), Eq(mk("dyntype", SInt, v.e), IntLit(t.eng.typeID(pt)))), typ: boolT}
			}
		}
		specFail("unknown type in %s", x.Fun)
	}
	if x.Fun == "is_nil_iface" {
		return sval{e: Eq(arg(0).e, th.AddrLit(0)), typ: boolT}
	}
	if x.Fun == "addr" && len(x.Args) == 2 {
		// addr(s, i): the address of element i of sequence s, in the engine's idx(base, i) form.
		// `forall i :: addr(buf, i) == addr(old(buf), n + i)` is a valid fact once ptr(buf) ==
		// ptr(old(buf)) + n; stated as an invariant it re-bases element terms for E-matching.
		base := arg(0)
		_, ptr, _ := f.specElems(base, env)
		return sval{e: th.AIdx(ptr, f.specIndexVal(x.Args[1], env)), typ: intT}
	}
	if strings.HasPrefix(x.Fun, "gi_") && len(x.Args) == 1 {
		return sval{e: Select(f.specCell(t.ghost(x.Fun, ArrayOf(SInt, SInt)), env), arg(0).e)}
	}
	if strings.HasPrefix(x.Fun, "gs_") && len(x.Args) == 1 {
		return sval{e: Select(f.specCell(t.ghost(x.Fun, ArrayOf(SInt, SInt)), env), arg(0).e)}
	}
	if strings.HasPrefix(x.Fun, "gh_") && len(x.Args) == 1 {
		return sval{e: Select(f.specCell(t.ghost(x.Fun, SInt), env), arg(0).e), typ: intT}
	}
	switch x.Fun {
	case "len":
		return sval{e: f.specLen(arg(0)), typ: intT}
	case "cap":
		v := arg(0)
		if _, ok := v.typ.Underlying().(*types.Slice); ok {
			return sval{e: th.SCap(v.e), typ: intT}
		}
		return sval{e: f.specLen(v), typ: intT}
	case "ptr":
		v := arg(0)
		_, p, _ := f.specElems(v, env)
		return sval{e: p, typ: intT}
	case "old":
		saved := env.inOld
		env.inOld = true
		v := arg(0)
		env.inOld = saved
		return v
	case "entry":
		// entry(e), in a loop invariant: e in the state in which the loop was entered (every cell of e
		// is read from the snapshot vcgen keeps at the loop head; bound variables stay)
		if env.loopOrd == 0 {
			specFail("entry(): only inside a loop invariant")
		}
		v := arg(0)
		pre := fmt.Sprintf("entry$%d$", env.loopOrd)
		v.e = RenameCells(v.e, func(c *Cell) Expr {
			if strings.HasPrefix(c.Name, "entry$") || strings.HasPrefix(c.Name, "old$") {
				return c
			}
			return &Cell{pre + c.Name, c.S}
		})
		v.lv = nil
		return v
	case "disjoint", "disjointcap":
		var rs [][2]Expr
		for i := range x.Args {
			v := arg(i)
			_, p, _ := f.specElems(v, env)
			var n Expr
			if _, ok := v.typ.Underlying().(*types.Slice); ok && x.Fun == "disjointcap" {
				n = th.SCap(v.e)
			} else {
				n = f.specLen(v)
			}
			rs = append(rs, [2]Expr{p, th.AAdd(p, n)})
		}
		var cs []Expr
		for i := range rs {
			for j := i + 1; j < len(rs); j++ {
				cs = append(cs, Or(th.ALe(rs[i][1], rs[j][0]), th.ALe(rs[j][1], rs[i][0]), th.ALe(rs[i][1], rs[i][0]), th.ALe(rs[j][1], rs[j][0])))
			}
		}
		return sval{e: And(cs...), typ: boolT}
	case "external":
		v := arg(0)
		_, p, _ := f.specElems(v, env)
		return sval{e: th.ALt(th.AAdd(p, th.SCap(v.e)), th.AddrLit(addrLimit)), typ: boolT}
	case "min", "max":
		a, b := arg(0), arg(1)
		ae, be, typ := f.coerce(a, b, asLit(x.Args[0]), asLit(x.Args[1]))
		le := th.SLe(ae, be)
		if th.bv && !f.isSigned(sval{typ: typ}) {
			le = th.ALe(ae, be)
		}
		if x.Fun == "min" {
			return sval{e: Ite(le, ae, be), typ: typ}
		}
		return sval{e: Ite(le, be, ae), typ: typ}
	case "le16", "le32", "le64":
		n := map[string]int{"le16": 2, "le32": 4, "le64": 8}[x.Fun]
		base := arg(0)
		mem, ptr, _ := f.specElems(base, env)
		var off Expr = th.AddrLit(0)
		if len(x.Args) > 1 {
			off = f.specIndexVal(x.Args[1], env)
		}
		return sval{e: f.leLoad(mem, th.AAdd(ptr, off), n), typ: map[int]types.Type{2: types.Typ[types.Uint16], 4: types.Typ[types.Uint32], 8: types.Typ[types.Uint64]}[n]}
	case "inpos":
		return sval{e: Select(f.specCell(t.rdPos(), env), arg(0).e), typ: intT}
	case "inlen":
		return sval{e: Select(f.specCell(t.rdLen(), env), arg(0).e), typ: intT}
	case "inerr":
		return sval{e: Select(f.specCell(t.rdErr(), env), arg(0).e), typ: errorT()}
	case "xlen":
		return sval{e: Select(f.specCell(t.ghost("xxhLen", SInt), env), arg(0).e), typ: intT}
	case "xdata":
		return sval{e: Select(f.specCell(t.ghost("xxhData", ArrayOf(SInt, SInt)), env), arg(0).e)}
	case "indata":
		return sval{e: Select(f.specCell(t.rdData(), env), arg(0).e)}
	case "outdata":
		return sval{e: Select(f.specCell(t.wrData(), env), arg(0).e)}
	case "inbyte":
		return sval{e: Select(Select(f.specCell(t.rdData(), env), arg(0).e), f.specIndexVal(x.Args[1], env)), typ: types.Typ[types.Uint8]}
	case "outlen":
		return sval{e: Select(f.specCell(t.wrLen(), env), arg(0).e), typ: intT}
	case "outbyte":
		return sval{e: Select(Select(f.specCell(t.wrData(), env), arg(0).e), f.specIndexVal(x.Args[1], env)), typ: types.Typ[types.Uint8]}
	case "outerr":
		return sval{e: Select(f.specCell(t.wrFail(), env), arg(0).e), typ: errorT()}
	case "errIs":
		return sval{e: mk("errIs", SBool, arg(0).e, arg(1).e), typ: boolT}
	case "freshobj":
		// freshobj(p): the object was allocated during the call / function
		v := arg(0)
		saved := env.inOld
		env.inOld = true
		top := f.specCell(t.objTop(), env)
		env.inOld = saved
		return sval{e: th.ALe(top, t.rootOfID(v.e)), typ: boolT}
	case "fresh":
		// fresh(s): the slice lies in memory allocated during the call/function
		v := arg(0)
		_, p, _ := f.specElems(v, env)
		saved := env.inOld
		env.inOld = true
		top := f.specCell(t.allocTop(), env)
		env.inOld = saved
		// allocated during the call: above the old allocation top and below the new one
		hi := th.AAdd(p, f.specLen(v))
		if _, ok := v.typ.Underlying().(*types.Slice); ok {
			hi = th.AAdd(p, th.SCap(v.e))
		}
		return sval{e: And(th.ALe(top, p), th.ALe(hi, f.specCell(t.allocTop(), env))), typ: boolT}
	}
	// spec-library function
	thKey := "|int"
	if th.bv {
		thKey = "|bv"
	}
	if sig, ok := t.eng.specFuncs[x.Fun+thKey]; ok {
		var args []Expr
		j := 0 // index into the signature; a sequence argument fills two slots (memory, base address)
		for i := range x.Args {
			if j >= len(sig.Args) {
				specFail("%s: too many arguments", x.Fun)
			}
			if l := asLit(x.Args[i]); l != nil {
				if sig.Args[j].IsBV() {
					args = append(args, BVLit(l, sig.Args[j].BVWidth()))
				} else {
					args = append(args, BigLit(l))
				}
				j++
				continue
			}
			v := arg(i)
			underOld := false
			if c, ok := x.Args[i].(*SCall); ok && c.Fun == "old" {
				underOld = true // old(s) as a sequence argument: the entry-state memory, not only the old header
			}
			if sig.Args[j].IsArray() && v.typ != nil {
				isSeq := false
				switch u := v.typ.Underlying().(type) {
				case *types.Slice:
					isSeq = true
				case *types.Pointer:
					_, isSeq = u.Elem().Underlying().(*types.Array)
				}
				if isSeq {
					saved := env.inOld
					env.inOld = env.inOld || underOld
					mem, ptr, _ := f.specElems(v, env)
					env.inOld = saved
					args = append(args, mem, ptr)
					j += 2
					continue
				}
			}
			ve := v.e
			if th.bv && ve.Sort().IsBV() && sig.Args[j].IsBV() && ve.Sort() != sig.Args[j] {
				w := sig.Args[j].BVWidth()
				if ve.Sort().BVWidth() < w {
					ve = f.extend(v, w)
				} else {
					ve = mk(fmt.Sprintf("(_ extract %d 0)", w-1), BV(w), ve)
				}
			}
			if ve.Sort() != sig.Args[j] {
				specFail("%s: argument %d has sort %s, want %s", x.Fun, i, ve.Sort(), sig.Args[j])
			}
			args = append(args, ve)
			j++
		}
		if j != len(sig.Args) {
			specFail("%s: wrong number of arguments", x.Fun)
		}
		t.usedSpecFuncs[x.Fun] = true
		return sval{e: mk(x.Fun, sig.Ret, args...), typ: sortGoType(sig.Ret)}
	}
	specFail("unknown function %s", x.Fun)
	return sval{}
}

func sortGoType(s Sort) types.Type {
	switch s {
	case SBool:
		return types.Typ[types.Bool]
	case BV(8):
		return types.Typ[types.Uint8]
	case BV(16):
		return types.Typ[types.Uint16]
	case BV(32):
		return types.Typ[types.Uint32]
	case BV(64):
		return types.Typ[types.Uint64]
	}
	return nil
}

// leLoad: little-endian load of n bytes at address a.
func (f *frame) leLoad(mem Expr, a Expr, n int) Expr {
	th := f.t.th
	if th.bv {
		var e Expr = Select(mem, a)
		for i := 1; i < n; i++ {
			b := Select(mem, th.AAdd(a, th.AddrLit(int64(i))))
			e = mk("concat", BV(8*(i+1)), b, e)
		}
		return e
	}
	var e Expr = Select(mem, a)
	for i := 1; i < n; i++ {
		b := Select(mem, th.AAdd(a, th.AddrLit(int64(i))))
		e = IAdd(e, IMul(BigLit(pow2(8*i)), b))
	}
	return e
}

// autoPatterns: E-matching triggers for a quantified contract clause: every
// application of a spec function or array read that mentions the bound variable
// (each one an alternative single-term pattern). Terms that nest another
// candidate are skipped in favour of the inner one only when they are not
// themselves function applications.
func autoPatterns(body Expr, bound string) [][]Expr {
	var out [][]Expr
	seen := map[string]bool{}
	var mentions func(e Expr) bool
	mentions = func(e Expr) bool {
		switch x := e.(type) {
		case *Var:
			return x.Name == bound
		case *App:
			for _, a := range x.Args {
				if mentions(a) {
					return true
				}
			}
		}
		return false
	}
	var hasQuantOrIte func(e Expr) bool
	hasQuantOrIte = func(e Expr) bool {
		switch x := e.(type) {
		case *Quant:
			return true
		case *App:
			if x.Op == "ite" || x.Op == "and" || x.Op == "or" || x.Op == "not" || x.Op == "=>" || x.Op == "=" || x.Op == "<" || x.Op == "<=" || x.Op == ">" || x.Op == ">=" {
				return true
			}
			for _, a := range x.Args {
				if hasQuantOrIte(a) {
					return true
				}
			}
		}
		return false
	}
	var walk func(e Expr)
	walk = func(e Expr) {
		switch x := e.(type) {
		case *App:
			if x.Op == "select" {
				// the bound variable must occur bare, or bare as the index of idx(base, j) with a
				// base that does not mention it: arithmetic inside a trigger causes matching loops
				okPat := false
				if v, ok := x.Args[1].(*Var); ok && v.Name == bound {
					okPat = true
				} else if ia, ok := x.Args[1].(*App); ok && ia.Op == "idx" {
					if v, ok := ia.Args[1].(*Var); ok && v.Name == bound && !mentions(ia.Args[0]) {
						okPat = true
					}
				}
				if !okPat || mentions(x.Args[0]) {
					for _, a := range x.Args {
						walk(a)
					}
					return
				}
			}
			if (x.Op == "select" || strings.Contains(x.Op, ".")) && mentions(x) && !hasQuantOrIte(x) {
				k := Print(RenameCells(x, func(c *Cell) Expr { return &Var{"<" + c.Name + ">", c.S} }))
				if !seen[k] {
					seen[k] = true
					out = append(out, []Expr{x})
				}
			}
			for _, a := range x.Args {
				walk(a)
			}
		case *Quant:
			walk(x.Body)
		}
	}
	walk(body)
	if len(out) > 6 {
		out = out[:6]
	}
	return out
}

// specUpdate evaluates an `updates X[i] := v` clause: memory cell, address, value.
func (f *frame) specUpdate(u UpdateClause, env *specEnv) (*Cell, Expr, Expr) {
	t := f.t
	th := t.th
	ix, ok := u.Target.(*SIndex)
	if !ok {
		specFail("updates target must be X[i]")
	}
	base := f.specExpr(ix.X, env)
	_, ptr, elem := f.specElems(base, env)
	idx := f.specIndexVal(ix.I, env)
	v := f.specExpr(u.Val, env)
	ve := v.e
	want := th.SortOf(elem)
	if l := asLit(u.Val); l != nil {
		ve = th.IntConst(l, elem)
	}
	if ve.Sort() != want {
		specFail("updates value has sort %s, want %s", ve.Sort(), want)
	}
	return t.mem(elem), th.AAdd(ptr, idx), ve
}
