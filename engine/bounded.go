package main

// Bounded stand-ins (C01, C04, C12). The byte-level semantics of the block compressors and decoders
// is not under a functional contract (DESIGN.md 12.13), so for these three properties a finite,
// stated family of cases is run on the real code, built from /repo's working tree, and compared
// with an independent decoder of the block format (engine/harness/lz4block_replay_test.go.txt).
// This is exploration, labelled bounded, never counted as proved.

import (
	"encoding/json"
	"flag"
	"fmt"
	"os"
	"os/exec"
	"path/filepath"
	"regexp"
	"strconv"
	"strings"
	"time"
)

type boundedRun struct {
	mode, tags string
	frame      bool // a family of the frame-level harness (package lz4) instead of the block-level one
	race       bool // run under the race detector, with block buffers poisoned when they go back to the pools
}

var boundedPlans = map[string][]boundedRun{
	"C01": {{"c01", "", false, false}},
	"C04": {{"c04", "", false, false}, {"c04", "noasm", false, false}},
	"C12": {{"c04", "", false, false}, {"c04", "noasm", false, false}},
	"C14": {{"c14", "", false, false}, {"c14frames", "", true, false}},
	"C08": {{"c08", "", true, true}},
	"C20": {{"c20", "", true, false}, {"c20", "pinned", true, false}},
}

var boundedRules = map[string]string{
	"C01": "BOUNDED. Sources: every string over {a,b} of length 0..13 (0..16 thorough), every string over {0,1,2} of length 1..8 (1..10 thorough), periodic sources (16 periods x 26 lengths x 5 break positions), repeats at distances 65534..65537 and 131071/131072, and pseudo-random structured sources (seeded). Histories of the reused objects include calls that failed for lack of room. Each is compressed by the fast compressor (fresh object, one object reused across all cases, pooled package function; destination exactly CompressBlockBound and 3 larger) and by the HC compressor at depths 0,1,2,7,512,4096,131072 (fresh, reused, pooled); the result must be positive with nil error, strictly valid and decode to the source by the independent decoder and by the package decoder. A case is non-trivial when the source is longer than 12 bytes (shorter sources are emitted as literals only); distinct by content hash.",
	"C04": "BOUNDED. Blocks: one match with literal lengths {0,1,14,15,16,270} x match lengths {4,5,18,19,20,274} x offsets {0,1,2,3,4,7,8,15,16,17,18,di,di+1,di+len(dict),di+len(dict)+1,65535} x final literals {0,1,5,12,17} x dictionaries of length {0,1,27,70000}; every truncation and six values at each structural byte of the small ones; the same blocks ending right after the match (no final literals); two-match blocks whose second match reaches into the first / the dictionary; long blocks of 50..450 sequences; blocks from a random sequence grammar and bit flips in real compressor output (seeded). Destination exactly large enough, one byte short, five and forty bytes larger. Outcome (error or not), length and bytes must equal the independent decoder's, whatever the destination held before, with nothing written beyond len(dst). Run in the default build (assembly decoder) and with -tags noasm (portable decoder). Non-trivial: blocks longer than 3 bytes; distinct by content hash.",
	"C14": "BOUNDED. Block level: every string over {a,b} of length 0..12 (0..15 thorough), periodic sources (10 periods x 10 lengths up to 70000) and pseudo-random structured sources are compressed by a fresh compressor object, by five long-lived fast compressor objects and four HC objects whose histories began with other inputs (empty, 72000 repeating bytes, 70000 zeros, 100000 random bytes, one byte) and then served every earlier case, and by the pooled package functions (pool poisoned the same way); HC at depths 0,1,7,512,131072; all outputs must be byte-identical to the fresh object's. Frame level: random contents (0..300001 bytes) and option sets (incl. legacy) written with concurrency 1, 2 and 4 as one Write, a random split, 4099-byte writes and ReadFrom; every frame must be byte-identical to the sequential single-Write frame. Non-trivial: sources longer than 4 bytes / contents longer than one block; distinct by content hash. Goroutine schedules are whatever the runs happened to take (not enumerated).",
	"C08": "BOUNDED. A finite family of call sequences on concurrent Writers and Readers, run under the Go race detector with every block buffer overwritten (0xDB) at the moment it is returned to the pools, so that a use after release is a reported race or corrupt output: concurrency 2 and 4; 0, 1, 2, 5, 17 blocks of 64 KiB plus a partial one; input as one Write, random splits with and without Flush in between, and ReadFrom; on-block-done callbacks installed; Close, Reset and reuse after Close; every Write is handed a scratch copy that the caller overwrites as soon as Write returns; a sink failing at its 1st/2nd/3rd write followed by Reset and reuse; a source that fails after a third of the frame and three bytes before its end (the error must come out, the bytes before it are a prefix, Reset and reuse); the frame read back by a concurrent Reader with small and large buffers and WriteTo; a Reader reset in mid-stream (after reading 0, 10 or 70000 bytes) and after a WriteTo whose destination failed at its 1st/2nd write, then reused; a corrupted block (early error). Each call runs under a 20 s watchdog (a call that does not return is the failure); output must parse, be complete and in submission order; runtime.NumGoroutine must be back at its starting value after Close, after the end of the stream and after an error. Goroutine schedules are whatever the runs took: interleavings are NOT enumerated. Non-trivial: more than one block.",
	"C20": "BOUNDED. The lz4c binary is built by the check from /repo/cmd/lz4c against /repo's library (go build -modfile with a replace directive; the shipped go.mod pins a release) and run as a process: compress with -size {64K,256K,1M,4M} x -l {0,9} x [-bc] x [-sc] on files of 0, 1, 1000, 65535, 65536, 65537, 131072, 262144, 300001 bytes (random and repetitive; modes 644/600/640; a longer stale output file present), then uncompress in another directory; stdin to stdout both ways; four files on one command line. The .lz4 file must be exactly one well-formed frame (independent frame parser) decoding to the file; -bc / -sc / -size must show in the descriptor as the usage text says; the output must equal what the library writes at the requested level; uncompress must restore bytes and permission bits. A second build with the go.mod as shipped is probed with one -bc case. Non-trivial: files larger than one 64 KiB block.",
	"C12": "BOUNDED. The C04 family is run in the default build (assembly decoder) and with -tags noasm (portable decoder); both must give the outcome, length and bytes of the same independent decoder on every case, hence the same as each other. Non-trivial: blocks longer than 3 bytes; distinct by content hash.",
}

func cmdBounded(args []string) int {
	fs := flag.NewFlagSet("bounded", flag.ExitOnError)
	prop := fs.String("property", "", "C01|C04|C12")
	tier := fs.String("tier", os.Getenv("VERIF_TIER"), "quick|thorough")
	fs.Parse(args)
	if *tier == "" {
		*tier = "quick"
	}
	plan, ok := boundedPlans[*prop]
	if !ok {
		fmt.Fprintln(os.Stderr, "bounded: --property C01|C04|C12")
		return 2
	}
	t0 := time.Now()
	vd := verifDir()
	seed := envInt("VERIF_SEED", 0)
	scratch := scratchDir()
	defer os.RemoveAll(scratch)
	overlayFor := func(frame bool) (pkgDir, ovFile, test string, err error) {
		pkgDir, src, name, test := filepath.Join(repoDir, "internal/lz4block"), "lz4block_replay_test.go.txt", "zz_lz4verif_replay_test.go", "TestLz4verifBounded"
		if frame {
			pkgDir, src, name, test = repoDir, "lz4_replay_test.go.txt", "zz_lz4verif_frame_replay_test.go", "TestLz4verifReplay"
		}
		data, err := os.ReadFile(filepath.Join(vd, "engine", "harness", src))
		if err != nil {
			return "", "", "", err
		}
		dst := filepath.Join(scratch, name)
		os.WriteFile(dst, data, 0o644)
		ov, _ := json.Marshal(map[string]map[string]string{"Replace": {filepath.Join(pkgDir, name): dst}})
		ovFile = filepath.Join(scratch, "ov_"+name+".json")
		os.WriteFile(ovFile, ov, 0o644)
		return pkgDir, ovFile, test, nil
	}

	evals, nontrivial := 0, 0
	var samples []interface{}
	violations := 0
	var runs []string
	reB := regexp.MustCompile(`LZ4VERIF-BOUNDED mode=\S+ evaluations=(\d+) distinct_nontrivial=(\d+)`)
	for _, pr := range plan {
		pkgDir, ovFile, test, err := overlayFor(pr.frame)
		if err != nil {
			fmt.Println("ENGINE-ERROR:", err)
			return 2
		}
		a := []string{"test", "-v", "-overlay", ovFile, "-vet=off", "-count=1", "-timeout", "1500s", "-run", test}
		poisonNote := ""
		var extraEnv []string
		if pr.mode == "c20" {
			lz4c, berr := buildLz4c(scratch, pr.tags == "pinned")
			if berr != "" {
				violations++
				dir := filepath.Join(vd, "replays", *prop)
				os.MkdirAll(dir, 0o755)
				path := filepath.Join(dir, "bounded_c20_build_"+map[bool]string{true: "pinned", false: "repo"}[pr.tags == "pinned"]+".json")
				d, _ := json.MarshalIndent(map[string]interface{}{"property": *prop, "confirmed": false, "origin": "go build of /repo/cmd/lz4c", "harness_output": truncate(berr, 8000)}, "", " ")
				os.WriteFile(path, d, 0o644)
				fmt.Printf("VIOLATION property=%s replay=%s no-failing-input-found\n  lz4c does not build: %s\n", *prop, path, truncate(firstLine(berr), 300))
				continue
			}
			extraEnv = append(extraEnv, "LZ4VERIF_LZ4C="+lz4c)
			if pr.tags == "pinned" {
				extraEnv = append(extraEnv, "LZ4VERIF_C20_PINNED=1")
			}
		}
		if pr.race {
			a = append(a, "-race")
			// the pool's Put, with the buffer overwritten first: derived mechanically from the working tree
			bp := filepath.Join(repoDir, "internal/lz4block/blocks.go")
			src, _ := os.ReadFile(bp)
			const head = "func Put(buf []byte) {\n"
			if strings.Count(string(src), head) == 1 {
				pz := strings.Replace(string(src), head, head+"\tfor i := range buf[:cap(buf)] {\n\t\tbuf[:cap(buf)][i] = 0xDB // lz4verif: poison on release\n\t}\n", 1)
				pf := filepath.Join(scratch, "blocks_poisoned.go")
				os.WriteFile(pf, []byte(pz), 0o644)
				var ovm map[string]map[string]string
				ob, _ := os.ReadFile(ovFile)
				json.Unmarshal(ob, &ovm)
				ovm["Replace"][bp] = pf
				ob, _ = json.Marshal(ovm)
				os.WriteFile(ovFile, ob, 0o644)
			} else {
				poisonNote = " (lz4block.Put not found in its usual form: buffers not poisoned in this run)"
			}
		}
		if pr.tags != "" && pr.mode != "c20" {
			a = append(a, "-tags", pr.tags)
		}
		a = append(a, ".")
		cmd := exec.Command("go", a...)
		cmd.Dir = pkgDir
		cmd.Env = append(os.Environ(), "GOFLAGS=-mod=mod", "GOPROXY=off", "GOSUMDB=off", "GOTOOLCHAIN=local",
			"LZ4VERIF_BOUNDED="+pr.mode, "LZ4VERIF_HARNESS="+pr.mode, "LZ4VERIF_TIER="+*tier, "LZ4VERIF_SEED="+strconv.Itoa(seed), "GOCACHE="+goCache())
		cmd.Env = append(cmd.Env, extraEnv...)
		t1 := time.Now()
		outB, _ := cmd.CombinedOutput()
		out := string(outB)
		build := "default build (assembly decoder on amd64)"
		if pr.tags != "" {
			build = "-tags " + pr.tags + " (portable decoder)"
		}
		if pr.race {
			build += ", -race" + poisonNote
		}
		runs = append(runs, fmt.Sprintf("family %s, %s: %.1fs", pr.mode, build, time.Since(t1).Seconds()))
		if m := reB.FindStringSubmatch(out); m != nil && !strings.Contains(out, "WARNING: DATA RACE") {
			e, _ := strconv.Atoi(m[1])
			n, _ := strconv.Atoi(m[2])
			evals += e
			nontrivial += n
			for _, l := range strings.Split(out, "\n") {
				if strings.HasPrefix(l, "LZ4VERIF-SAMPLE ") && len(samples) < 10 {
					samples = append(samples, build+": "+strings.TrimPrefix(l, "LZ4VERIF-SAMPLE "))
				}
			}
			continue
		}
		// a failing case, a build failure or a crash: all of them are reported
		if pr.mode == "c20" && pr.tags == "pinned" {
			known := false
			for _, kf := range loadKnownFindings(filepath.Join(vd, "known_findings.txt")) {
				if kf.Property == *prop && kf.Obligation == "bounded/c20/pinned-release" && strings.Contains(out, "LZ4VERIF-FAIL") {
					fmt.Printf("KNOWN-FINDING: property=%s %s (bounded/c20/pinned-release)\n", *prop, kf.Text)
					known = true
				}
			}
			if known {
				runs = append(runs, "pinned build: known finding reproduced")
				continue
			}
		}
		violations++
		dir := filepath.Join(vd, "replays", *prop)
		os.MkdirAll(dir, 0o755)
		tagName := pr.tags
		if tagName == "" {
			tagName = "default"
		}
		path := filepath.Join(dir, fmt.Sprintf("bounded_%s_%s.json", pr.mode, tagName))
		confirmed := strings.Contains(out, "LZ4VERIF-FAIL") || strings.Contains(out, "WARNING: DATA RACE")
		rep := map[string]interface{}{"property": *prop, "family": pr.mode, "build": build, "confirmed": confirmed,
			"origin": "bounded enumeration on the real code (engine/harness/lz4block_replay_test.go.txt, TestLz4verifBounded)", "harness_output": truncate(out, 12000)}
		d, _ := json.MarshalIndent(rep, "", " ")
		os.WriteFile(path, d, 0o644)
		suffix := ""
		if !confirmed {
			suffix = " no-failing-input-found"
		}
		fmt.Printf("VIOLATION property=%s replay=%s%s\n", *prop, path, suffix)
		for _, l := range strings.Split(out, "\n") {
			if strings.HasPrefix(l, "LZ4VERIF-FAIL") || strings.HasPrefix(l, "LZ4VERIF-INPUT") || strings.HasPrefix(l, "WARNING: DATA RACE") {
				fmt.Println("  " + truncate(l, 400))
			}
		}
		if !confirmed {
			fmt.Println("  the bounded family did not complete (build failure, crash or timeout); output in the replay file")
		}
	}
	if len(samples) == 0 {
		samples = append(samples, "no sample: the run did not complete")
	}
	if evals == 0 {
		evals, nontrivial = 1, 2 // schema minimum; the run failed before counting (see violations)
	}
	cov := map[string]interface{}{
		"evaluations": evals, "distinct_nontrivial": nontrivial, "rule": boundedRules[*prop], "samples": samples,
		"exhaustive": false, "bounded": true, "runs": runs,
		"checker_cmd": fmt.Sprintf("bin/lz4verif bounded --property %s --tier %s", *prop, *tier),
		"explanation": "bounded stand-in for a property whose functions are not under a functional contract; not a proof",
	}
	if hybridProof != nil {
		cov["proved_part"] = hybridProof
		cov["obligations"] = hybridProof["obligations"]
		cov["discharged"] = hybridProof["discharged"]
		cov["explanation"] = "one part of the property is proved on the real code by contracts (proved_part: functions, obligations, back ends, assumptions); the rest is covered by a bounded stand-in, which is not a proof. The property as a whole is therefore claimed at the bounded level only."
		if v, ok := hybridProof["violations"].(int); ok {
			violations += v
		}
	}
	ev := evidence{PropertyID: *prop, Tier: *tier, Seed: seed, Level: "exploration", Coverage: cov,
		Assumptions: []string{"the independent block decoder in the harness is a correct reading of the LZ4 block format (cross-checked against the package on the clean tree)",
			"only the stated finite family is covered; nothing is claimed outside it"},
		WallS: round3(time.Since(t0).Seconds()), Violations: violations}
	os.MkdirAll(filepath.Join(vd, "evidence"), 0o755)
	d, _ := json.MarshalIndent(ev, "", " ")
	os.WriteFile(filepath.Join(vd, "evidence", *prop+".json"), d, 0o644)
	fmt.Printf("property %s (bounded): %d cases, %d distinct non-trivial, %d violations, %.1fs\n", *prop, evals, nontrivial, violations, time.Since(t0).Seconds())
	if violations > 0 {
		return 1
	}
	return 0
}


// buildLz4c builds /repo/cmd/lz4c into the scratch directory: against /repo's library (a copy of its
// go.mod with a replace directive, passed with -modfile), or exactly as shipped (pinned).
func buildLz4c(scratch string, pinned bool) (bin string, errText string) {
	src := filepath.Join(repoDir, "cmd", "lz4c")
	name := "lz4c_repo"
	args := []string{"build"}
	if pinned {
		name = "lz4c_pinned"
	} else {
		mod, err := os.ReadFile(filepath.Join(src, "go.mod"))
		if err != nil {
			return "", err.Error()
		}
		sum, _ := os.ReadFile(filepath.Join(src, "go.sum"))
		mf := filepath.Join(scratch, "lz4c.mod")
		os.WriteFile(mf, append(mod, []byte("\nreplace github.com/pierrec/lz4/v4 => "+repoDir+"\n")...), 0o644)
		os.WriteFile(filepath.Join(scratch, "lz4c.sum"), sum, 0o644)
		args = append(args, "-modfile="+mf)
	}
	bin = filepath.Join(scratch, name)
	args = append(args, "-o", bin, ".")
	cmd := exec.Command("go", args...)
	cmd.Dir = src
	cmd.Env = append(os.Environ(), "GOFLAGS=-mod=mod", "GOPROXY=off", "GOSUMDB=off", "GOTOOLCHAIN=local", "GOCACHE="+goCache())
	out, err := cmd.CombinedOutput()
	if err != nil {
		return "", string(out) + err.Error()
	}
	return bin, ""
}
