package main

// Solver layer: each obligation is one SMT-LIB query, discharged by racing
// z3-new (5.1.0), z3 (4.8.12) and cvc5 (1.0.x). First definite answer wins.

import (
	"bytes"
	"context"
	"fmt"
	"os"
	"os/exec"
	"path/filepath"
	"strings"
	"sync"
	"time"
)

type solverSpec struct {
	name string
	args func(file string, timeoutS int, seed int) []string
}

var solvers = []solverSpec{
	{"z3-new", func(f string, t, seed int) []string {
		return []string{"z3-new", fmt.Sprintf("-T:%d", t), fmt.Sprintf("smt.random_seed=%d", seed), f}
	}},
	{"z3", func(f string, t, seed int) []string {
		return []string{"z3", fmt.Sprintf("-T:%d", t), fmt.Sprintf("smt.random_seed=%d", seed), f}
	}},
	{"cvc5", func(f string, t, seed int) []string {
		return []string{"cvc5", fmt.Sprintf("--tlimit=%d", t*1000), fmt.Sprintf("--seed=%d", seed), "--lang=smt2", f}
	}},
}

type solveCfg struct {
	timeoutS   int
	firstS     int // timeout of the first single-solver attempt
	seed       int
	workers    int
	scratch    string
	twoSolvers bool // thorough: require two agreeing solvers
	models     bool
}

// firstLine: the first line of a solver's output that is not a warning (z3 prints warnings about
// rejected quantifier patterns before its verdict).
func firstLine(s string) string {
	for _, l := range strings.Split(s, "\n") {
		l = strings.TrimSpace(l)
		if l == "" || strings.HasPrefix(l, "WARNING") {
			continue
		}
		return l
	}
	return ""
}

func runSolver(ctx context.Context, sp solverSpec, file string, timeoutS, seed int) (status, out string, dur float64) {
	// The limit is on the solver's CPU time (ulimit -t), not on the wall clock: on a loaded machine a
	// query takes longer but costs the same, and a wall-clock limit would turn load into failed
	// obligations. The solver's own wall-clock limit and the context are generous backstops.
	wall := timeoutS*12 + 60
	args := sp.args(file, wall, seed)
	cctx, cancel := context.WithTimeout(ctx, time.Duration(wall+5)*time.Second)
	defer cancel()
	shArgs := append([]string{"-c", fmt.Sprintf("ulimit -t %d; exec \"$@\"", timeoutS+1), "sh"}, args...)
	cmd := exec.CommandContext(cctx, "sh", shArgs...)
	var buf bytes.Buffer
	cmd.Stdout = &buf
	cmd.Stderr = &buf
	t0 := time.Now()
	_ = cmd.Run()
	dur = time.Since(t0).Seconds()
	out = buf.String()
	fl := firstLine(out)
	switch fl {
	case "unsat", "sat", "unknown":
		status = fl
	case "timeout":
		status = "timeout"
	default:
		if cctx.Err() != nil {
			status = "timeout"
		} else if ps := cmd.ProcessState; ps != nil && !ps.Exited() {
			status = "timeout" // killed by the CPU-time limit
		} else if strings.Contains(out, "timeout") || strings.Contains(out, "interrupted") {
			status = "timeout"
		} else {
			status = "error"
		}
	}
	return
}

func solveOne(o *Obligation, cfg solveCfg, idx int) {
	if o.NotUnsat {
		solveFirst(o, cfg, idx)
		return
	}
	q := o.Query(cfg.models)
	o.SMTSize = len(q)
	file := filepath.Join(cfg.scratch, fmt.Sprintf("q%05d.smt2", idx))
	if err := os.WriteFile(file, []byte(q), 0o644); err != nil {
		o.Status, o.Output = "error", err.Error()
		return
	}
	defer os.Remove(file)
	t0 := time.Now()
	prev := o.TimeS
	defer func() { o.TimeS = prev + time.Since(t0).Seconds() }()

	// stage 1 (two-solver mode only; otherwise done by solveFirst): z3-new alone, short timeout
	st, out := "pending", ""
	if cfg.twoSolvers {
		st, out, _ = runSolver(context.Background(), solvers[0], file, cfg.firstS, cfg.seed)
	}
	firstStatus, firstOut := st, out
	// stage 2: race all
	type res struct {
		name, st, out string
	}
	ctx, cancel := context.WithCancel(context.Background())
	defer cancel()
	ch := make(chan res, len(solvers))
	var wg sync.WaitGroup
	for i, sp := range solvers {
		if i == 0 && (firstStatus == "sat" || firstStatus == "unsat") {
			continue // already have its answer (two-solver mode)
		}
		wg.Add(1)
		go func(sp solverSpec) {
			defer wg.Done()
			s, o2, _ := runSolver(ctx, sp, file, cfg.timeoutS, cfg.seed)
			ch <- res{sp.name, s, o2}
		}(sp)
	}
	go func() { wg.Wait(); close(ch) }()
	var definite []res
	if firstStatus == "sat" || firstStatus == "unsat" {
		definite = append(definite, res{solvers[0].name, firstStatus, firstOut})
	}
	var last res
	need := 1
	if cfg.twoSolvers {
		need = 2
	}
	for r := range ch {
		last = r
		if r.st == "sat" || r.st == "unsat" {
			definite = append(definite, r)
			if len(definite) >= need {
				break
			}
		}
	}
	cancel()
	if len(definite) == 0 {
		o.Status, o.Solver, o.Output = "unknown", "none", "stage1: "+firstStatus+"\n"+last.out
		if last.st == "timeout" && firstStatus == "timeout" {
			o.Status = "timeout"
		}
		return
	}
	for _, d := range definite[1:] {
		if d.st != definite[0].st {
			o.Status, o.Solver = "error", "disagreement"
			o.Output = fmt.Sprintf("solver disagreement: %s=%s %s=%s", definite[0].name, definite[0].st, d.name, d.st)
			return
		}
	}
	if cfg.twoSolvers && len(definite) < 2 {
		// only one solver decided; accept but record
		o.Solver = definite[0].name + "(single)"
	} else if cfg.twoSolvers {
		o.Solver = definite[0].name + "+" + definite[1].name
	} else {
		o.Solver = definite[0].name
	}
	o.Status, o.Output = definite[0].st, definite[0].out
}

func solveAll(obls []*Obligation, cfg solveCfg) {
	// pass 1: one solver (z3-new) with a short timeout on every core; pass 2: the rest,
	// three solvers racing per obligation, so fewer obligations at a time
	run := func(idxs []int, workers int, f func(i int)) {
		var wg sync.WaitGroup
		ch := make(chan int)
		for w := 0; w < workers; w++ {
			wg.Add(1)
			go func() {
				defer wg.Done()
				for i := range ch {
					f(i)
				}
			}()
		}
		for _, i := range idxs {
			ch <- i
		}
		close(ch)
		wg.Wait()
	}
	all := make([]int, len(obls))
	for i := range obls {
		all[i] = i
	}
	if cfg.twoSolvers {
		w := cfg.workers / 3
		if w < 1 {
			w = 1
		}
		run(all, w, func(i int) { solveOne(obls[i], cfg, i) })
		return
	}
	run(all, cfg.workers, func(i int) { solveFirst(obls[i], cfg, i) })
	var rest []int
	for i, o := range obls {
		if o.Status != "sat" && o.Status != "unsat" {
			rest = append(rest, i)
		}
	}
	w := cfg.workers / 3
	if w < 1 {
		w = 1
	}
	run(rest, w, func(i int) { solveOne(obls[i], cfg, i) })
}

// solveFirst: a single z3-new attempt with the short timeout.
func solveFirst(o *Obligation, cfg solveCfg, idx int) {
	q := o.Query(cfg.models)
	o.SMTSize = len(q)
	file := filepath.Join(cfg.scratch, fmt.Sprintf("p%05d.smt2", idx))
	if err := os.WriteFile(file, []byte(q), 0o644); err != nil {
		o.Status, o.Output = "error", err.Error()
		return
	}
	defer os.Remove(file)
	t0 := time.Now()
	st, out, _ := runSolver(context.Background(), solvers[0], file, cfg.firstS, cfg.seed)
	o.TimeS = time.Since(t0).Seconds()
	if o.NotUnsat {
		// the axioms of the libraries must not be refutable; reported in the usual polarity
		o.Solver = solvers[0].name
		if st == "unsat" {
			o.Status, o.Output = "sat", "the axioms and lemmas of the library are contradictory"
		} else {
			o.Status, o.Output = "unsat", "no contradiction found within the time limit ("+st+")"
		}
		return
	}
	if st == "sat" || st == "unsat" {
		o.Status, o.Solver, o.Output = st, solvers[0].name, out
	} else {
		o.Status = "pending"
	}
}
