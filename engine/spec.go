package main

// Contract files and the specification-expression language.
//
// Contracts live in /repo/**/verif_contracts.go: comment-only files guarded by
// the build tag `verif`; every line that matters starts with `//@`.

import (
	"fmt"
	"math/big"
	"os"
	"path/filepath"
	"regexp"
	"strings"
	"unicode"
)

type SExpr interface{}
type SNum struct{ V *big.Int }
type SBoolLit struct{ V bool }
type SIdent struct{ Name string }
type SBin struct {
	Op   string
	X, Y SExpr
}
type SUn struct {
	Op string
	X  SExpr
}
type SCall struct {
	Fun  string
	Args []SExpr
}
type SIndex struct{ X, I SExpr }
type SSlice struct{ X, Lo, Hi SExpr }
type SField struct {
	X    SExpr
	Name string
}
type SQuant struct {
	Exists bool
	Var    string
	Body   SExpr
}
type SAddr struct{ X SExpr }
type SIte struct{ C, A, B SExpr }

type Clause struct {
	Kind  string // "" | "typeinv" (assumed at entry, not asserted by callers; proved at exit) | "ghostdef" (defines the ghost state at exit)
	Site  string // for assert clauses: "call <name>#k"
	Label string
	Props []string
	Text  string
	E     SExpr
}

// SinkDecl: `sink <pointer expr> implements <Type.Method>` in the contract of a function that
// hands the object to callees as an interface value.
type SinkDecl struct {
	Obj  string
	Impl string
}

type LoopContract struct {
	Ordinal   int
	Invs      []Clause
	Decreases *Clause
}

type UpdateClause struct {
	Text   string
	Target SExpr
	Val    SExpr
}

type GhostUpdate struct {
	Name string
	Site string // "entry", "loop N", "call F#k"
	E    SExpr
}

type FuncContract struct {
	Name      string // e.g. "Compressor.CompressBlock", "decodeBlock", "BlockSizeOption$1"
	Pkg       string
	Theory    string // "int" (default) or "bv"
	Props     []string
	Inline    bool
	Trusted   bool   // contract assumed, body not verified
	Pure      bool   // no heap / memory effects at all
	Requires  []Clause
	Ensures   []Clause
	OnPanic   []Clause
	Modifies  []string // heap fields "Type.field" or "*" ; memory: see Writes
	Writes    []Clause // byte ranges s[a:b]
	Loops     map[int]*LoopContract
	Asserts   []Clause // assert φ @ site  (Label carries site)
	Uses      []string // spec libraries
	File      string
	NoPanicOK bool // function has a recover handler; panics become edges
	Lemmas    []Clause
	Updates   []UpdateClause // exact memory effect: X[i] := v (evaluated in the pre-state)
	Concurrent bool     // goroutine fragment: channel/go/lock operations are interference points
	Stable     []string // heap fields / ghost state no other goroutine changes (rely condition)
	AsmLabels map[string]*LoopContract // assembly: invariants by label
	IsAsm     bool
	AllocBound *Clause
	GhostAt     map[string][]string // site -> ghost lvalues initialised there (fresh objects)
	GhostAtDefs []Clause            // their defining clauses (Site set)
	Sinks       []SinkDecl // objects of this package that callees reach through an interface (callback frame rule)
	GhostEntry  bool     // the ghost update happens at entry (ghostdef clauses are then proved at exit like any ensures)
	InlineCalls []string // callees whose body is inlined here although they have a contract of their own
	Locals     []string // the function's declared names in source order when the contract was written (see declaredNames)
	UseLemmas  []string // lemmas of the spec libraries given to this function's obligations
	LemmaFor   map[string]map[string]bool // lemma -> clause labels that may use it (absent: every obligation)
	SliceOut   map[string][]string        // property -> symbols: facts mentioning one are withheld from the obligations of exactly that property
	FactFor    map[string]map[string]bool // assert label -> labels of the obligations that may use the asserted fact (absent: all later ones)
	Focus      map[string]map[string]bool // obligation label -> labels of the only quantified facts it is proved from
	Opaque     []string // defined spec functions treated as uninterpreted in this function's obligations
	OpaqueFor  map[string]map[string]bool // the same, for the obligations with the listed labels only
	Ghost      []string // ghost lvalues (Xxh(x) ...) re-defined at exit by the ghostdef clauses
}

var tokRe = regexp.MustCompile(`^(\s+|==>|<==>|::|&&|\|\||==|!=|<=|>=|<<|>>|&\^|[-+*/%&|^<>!()\[\]:.,?]|0x[0-9a-fA-F_]+|[0-9][0-9_]*|[A-Za-z_][A-Za-z0-9_$@]*)`)

type specParser struct {
	toks []string
	pos  int
	src  string
}

func tokenize(s string) ([]string, error) {
	var out []string
	for len(s) > 0 {
		m := tokRe.FindString(s)
		if m == "" {
			return nil, fmt.Errorf("bad token at %q", s)
		}
		s = s[len(m):]
		if strings.TrimSpace(m) == "" {
			continue
		}
		out = append(out, m)
	}
	return out, nil
}

func ParseSpec(s string) (e SExpr, err error) {
	toks, err := tokenize(s)
	if err != nil {
		return nil, err
	}
	p := &specParser{toks: toks, src: s}
	defer func() {
		if r := recover(); r != nil {
			err = fmt.Errorf("spec parse error in %q: %v", s, r)
		}
	}()
	e = p.expr()
	if p.pos != len(p.toks) {
		panic("trailing tokens: " + strings.Join(p.toks[p.pos:], " "))
	}
	return e, nil
}

func (p *specParser) peek() string {
	if p.pos < len(p.toks) {
		return p.toks[p.pos]
	}
	return ""
}
func (p *specParser) next() string { t := p.peek(); p.pos++; return t }
func (p *specParser) expect(t string) {
	if p.peek() != t {
		panic(fmt.Sprintf("expected %q, got %q", t, p.peek()))
	}
	p.pos++
}

func (p *specParser) expr() SExpr {
	if p.peek() == "forall" || p.peek() == "exists" {
		ex := p.next() == "exists"
		v := p.next()
		p.expect("::")
		body := p.expr()
		return &SQuant{ex, v, body}
	}
	return p.iff()
}
func (p *specParser) iff() SExpr {
	x := p.impl()
	for p.peek() == "<==>" {
		p.next()
		y := p.impl()
		x = &SBin{"<==>", x, y}
	}
	return x
}
func (p *specParser) impl() SExpr {
	x := p.or()
	if p.peek() == "==>" {
		p.next()
		var y SExpr
		if p.peek() == "forall" || p.peek() == "exists" {
			y = p.expr()
		} else {
			y = p.impl()
		}
		return &SBin{"==>", x, y}
	}
	if p.peek() == "?" {
		p.next()
		a := p.expr()
		p.expect(":")
		b := p.expr()
		return &SIte{x, a, b}
	}
	return x
}
func (p *specParser) or() SExpr {
	x := p.and()
	for p.peek() == "||" {
		p.next()
		x = &SBin{"||", x, p.and()}
	}
	return x
}
func (p *specParser) and() SExpr {
	x := p.cmp()
	for p.peek() == "&&" {
		p.next()
		x = &SBin{"&&", x, p.cmp()}
	}
	return x
}
func (p *specParser) cmp() SExpr {
	x := p.add()
	switch p.peek() {
	case "==", "!=", "<", "<=", ">", ">=":
		op := p.next()
		y := p.add()
		r := SExpr(&SBin{op, x, y})
		// chained comparison a <= b < c
		for {
			switch p.peek() {
			case "<", "<=", ">", ">=":
				op2 := p.next()
				z := p.add()
				r = &SBin{"&&", r, &SBin{op2, y, z}}
				y = z
				continue
			}
			break
		}
		return r
	}
	return x
}
func (p *specParser) add() SExpr {
	x := p.mul()
	for {
		switch p.peek() {
		case "+", "-", "|", "^":
			op := p.next()
			x = &SBin{op, x, p.mul()}
			continue
		}
		return x
	}
}
func (p *specParser) mul() SExpr {
	x := p.unary()
	for {
		switch p.peek() {
		case "*", "/", "%", "<<", ">>", "&", "&^":
			op := p.next()
			x = &SBin{op, x, p.unary()}
			continue
		}
		return x
	}
}
func (p *specParser) unary() SExpr {
	switch p.peek() {
	case "!":
		p.next()
		return &SUn{"!", p.unary()}
	case "-":
		p.next()
		return &SUn{"-", p.unary()}
	case "^":
		p.next()
		return &SUn{"^", p.unary()}
	case "&":
		p.next()
		return &SAddr{p.unary()}
	}
	return p.postfix()
}
func (p *specParser) postfix() SExpr {
	x := p.primary()
	for {
		switch p.peek() {
		case "[":
			p.next()
			var lo SExpr
			if p.peek() != ":" {
				lo = p.expr()
			}
			if p.peek() == ":" {
				p.next()
				var hi SExpr
				if p.peek() != "]" {
					hi = p.expr()
				}
				p.expect("]")
				x = &SSlice{x, lo, hi}
			} else {
				p.expect("]")
				x = &SIndex{x, lo}
			}
		case ".":
			p.next()
			name := p.next()
			if id, ok := x.(*SIdent); ok && p.peek() == "(" && !strings.Contains(id.Name, ".") && isSpecPkg(id.Name) {
				// spec function pkg.F(args)
				p.next()
				args := p.args()
				x = &SCall{id.Name + "." + name, args}
			} else {
				x = &SField{x, name}
			}
		default:
			return x
		}
	}
}

var specPkgs = map[string]bool{}

func isSpecPkg(n string) bool { return specPkgs[n] }

func (p *specParser) args() []SExpr {
	var args []SExpr
	for p.peek() != ")" {
		args = append(args, p.expr())
		if p.peek() == "," {
			p.next()
		}
	}
	p.expect(")")
	return args
}
func (p *specParser) primary() SExpr {
	t := p.next()
	switch {
	case t == "(":
		e := p.expr()
		p.expect(")")
		return e
	case t == "true":
		return &SBoolLit{true}
	case t == "false":
		return &SBoolLit{false}
	case t == "":
		panic("unexpected end")
	case unicode.IsDigit(rune(t[0])):
		t = strings.ReplaceAll(t, "_", "")
		n := new(big.Int)
		if strings.HasPrefix(t, "0x") {
			n.SetString(t[2:], 16)
		} else {
			n.SetString(t, 10)
		}
		return &SNum{n}
	case unicode.IsLetter(rune(t[0])) || t[0] == '_':
		if p.peek() == "(" {
			p.next()
			args := p.args()
			return &SCall{t, args}
		}
		return &SIdent{t}
	}
	panic("unexpected token " + t)
}

type macroDef struct {
	params []string
	body   string
}

var macroRe = regexp.MustCompile(`^macro\s+([A-Za-z_][A-Za-z0-9_]*)\(([^)]*)\)\s*=\s*(.*)$`)

// expandMacros replaces NAME(arg, ...) by the macro body with parameters substituted textually.
func expandMacros(l string, macros map[string]macroDef) string {
	for iter := 0; iter < 20; iter++ {
		changed := false
		for name, def := range macros {
			for {
				i := indexWord(l, name+"(")
				if i < 0 {
					break
				}
				// find matching paren
				j := i + len(name) + 1
				depth := 1
				start := j
				var args []string
				for ; j < len(l) && depth > 0; j++ {
					switch l[j] {
					case '(':
						depth++
					case ')':
						depth--
						if depth == 0 {
							args = append(args, strings.TrimSpace(l[start:j]))
						}
					case ',':
						if depth == 1 {
							args = append(args, strings.TrimSpace(l[start:j]))
							start = j + 1
						}
					}
				}
				body := def.body
				for k, p := range def.params {
					if k < len(args) {
						body = regexp.MustCompile(`\b`+regexp.QuoteMeta(p)+`\b`).ReplaceAllString(body, "("+args[k]+")")
					}
				}
				l = l[:i] + "(" + body + ")" + l[j:]
				changed = true
			}
		}
		if !changed {
			break
		}
	}
	return l
}

func indexWord(s, w string) int {
	from := 0
	for {
		i := strings.Index(s[from:], w)
		if i < 0 {
			return -1
		}
		i += from
		if i == 0 || !(unicode.IsLetter(rune(s[i-1])) || unicode.IsDigit(rune(s[i-1])) || s[i-1] == '_' || s[i-1] == '.') {
			return i
		}
		from = i + 1
	}
}

var labelRe = regexp.MustCompile(`^([A-Za-z_][A-Za-z0-9_\-]*):\s`)
var propsRe = regexp.MustCompile(`^\[([A-Z0-9, ]+)\]\s*`)

func parseClause(s string) (Clause, error) {
	var c Clause
	s = strings.TrimSpace(s)
	if m := propsRe.FindStringSubmatch(s); m != nil {
		for _, p := range strings.Split(m[1], ",") {
			c.Props = append(c.Props, strings.TrimSpace(p))
		}
		s = s[len(m[0]):]
	}
	if m := labelRe.FindStringSubmatch(s); m != nil && !strings.HasPrefix(s[len(m[1]):], "::") {
		c.Label = m[1]
		s = strings.TrimSpace(s[len(m[0]):])
	}
	c.Text = s
	e, err := ParseSpec(s)
	if err != nil {
		return c, err
	}
	c.E = e
	if c.Label == "" {
		c.Label = shortLabel(s)
	}
	return c, nil
}

func shortLabel(s string) string {
	s = strings.Join(strings.Fields(s), "")
	if len(s) > 48 {
		s = s[:48]
	}
	return s
}

// LoadContracts reads every verif_contracts.go under root.
func LoadContracts(root string) (map[string]*FuncContract, error) {
	out := map[string]*FuncContract{}
	var files []string
	err := filepath.Walk(root, func(path string, info os.FileInfo, err error) error {
		if err != nil {
			return nil
		}
		if info.IsDir() && (info.Name() == ".git" || info.Name() == "testdata" || info.Name() == "cmd" || info.Name() == "fuzz") {
			return filepath.SkipDir
		}
		if !info.IsDir() && strings.HasPrefix(info.Name(), "verif_contracts") && strings.HasSuffix(info.Name(), ".go") {
			files = append(files, path)
		}
		return nil
	})
	if err != nil {
		return nil, err
	}
	for _, f := range files {
		if err := loadContractFile(f, out); err != nil {
			return nil, err
		}
	}
	return out, nil
}

func loadContractFile(file string, out map[string]*FuncContract) error {
	data, err := os.ReadFile(file)
	if err != nil {
		return err
	}
	pkg := ""
	var cur *FuncContract
	var curLoop *LoopContract
	var lines []string
	// join continuation lines ("//@ |")
	for _, raw := range strings.Split(string(data), "\n") {
		t := strings.TrimSpace(raw)
		if strings.HasPrefix(t, "package ") {
			pkg = strings.TrimSpace(strings.TrimPrefix(t, "package "))
			continue
		}
		if !strings.HasPrefix(t, "//@") {
			continue
		}
		body := strings.TrimSpace(strings.TrimPrefix(t, "//@"))
		if strings.HasPrefix(body, "|") && len(lines) > 0 {
			lines[len(lines)-1] += " " + strings.TrimSpace(body[1:])
			continue
		}
		if body == "" || strings.HasPrefix(body, "--") {
			continue
		}
		lines = append(lines, body)
	}
	macros := map[string]macroDef{}
	for _, l := range lines {
		// strip trailing comment " -- ..."
		if i := strings.Index(l, " -- "); i >= 0 {
			l = strings.TrimSpace(l[:i])
		}
		if strings.HasPrefix(l, "macro ") {
			m := macroRe.FindStringSubmatch(l)
			if m == nil {
				return fmt.Errorf("%s: bad macro %q", file, l)
			}
			var params []string
			for _, p := range strings.Split(m[2], ",") {
				if p = strings.TrimSpace(p); p != "" {
					params = append(params, p)
				}
			}
			macros[m[1]] = macroDef{params, expandMacros(strings.TrimSpace(m[3]), macros)}
			continue
		}
		l = expandMacros(l, macros)
		kw := l
		rest := ""
		if i := strings.IndexAny(l, " \t"); i >= 0 {
			kw, rest = l[:i], strings.TrimSpace(l[i+1:])
		}
		fail := func(e error) error { return fmt.Errorf("%s: %q: %v", file, l, e) }
		if kw != "func" && kw != "asm" && kw != "package" && cur == nil {
			return fail(fmt.Errorf("clause outside func"))
		}
		switch kw {
		case "asm":
			cur = &FuncContract{Name: "asm." + rest, Pkg: pkg, Theory: "bv", Loops: map[int]*LoopContract{}, AsmLabels: map[string]*LoopContract{}, File: file, IsAsm: true, Trusted: true}
			curLoop = nil
			out[pkg+".asm."+rest] = cur
		case "label":
			if cur == nil || !cur.IsAsm {
				return fail(fmt.Errorf("label outside asm contract"))
			}
			curLoop = &LoopContract{}
			cur.AsmLabels[strings.TrimSuffix(rest, ":")] = curLoop
		case "func":
			name := strings.NewReplacer("(", "", ")", "", "*", "").Replace(rest)
			cur = &FuncContract{Name: name, Pkg: pkg, Theory: "int", Loops: map[int]*LoopContract{}, File: file}
			curLoop = nil
			if _, dup := out[pkg+"."+name]; dup {
				return fail(fmt.Errorf("duplicate contract"))
			}
			out[pkg+"."+name] = cur
		case "theory":
			cur.Theory = rest
		case "props":
			cur.Props = strings.Fields(rest)
		case "inline":
			cur.Inline = true
		case "trusted":
			cur.Trusted = true
		case "pure":
			cur.Pure = true
		case "uses":
			cur.Uses = append(cur.Uses, strings.Fields(rest)...)
		case "concurrent":
			cur.Concurrent = true
		case "stable":
			cur.Stable = append(cur.Stable, splitTopLevel(rest)...)
		case "updates":
			parts := strings.SplitN(rest, ":=", 2)
			if len(parts) != 2 {
				return fail(fmt.Errorf("updates needs X[i] := v"))
			}
			te, err := ParseSpec(strings.TrimSpace(parts[0]))
			if err != nil {
				return fail(err)
			}
			ve, err := ParseSpec(strings.TrimSpace(parts[1]))
			if err != nil {
				return fail(err)
			}
			cur.Updates = append(cur.Updates, UpdateClause{rest, te, ve})
		case "modifies":
			for _, m := range splitTopLevel(rest) {
				cur.Modifies = append(cur.Modifies, m)
			}
		case "ghost-at":
			// ghost-at call f#k: Lval, Lval   -- the ghost state of an object allocated by this
			// function is given its initial value just before that call
			i := -1
			if m := regexp.MustCompile(`(#\d+|^end loop \d+):`).FindStringIndex(rest); m != nil {
				i = m[1] - 1 // the colon that follows the site's ordinal (a stmt site may contain `:=`)
			}
			if i < 0 {
				return fail(fmt.Errorf("ghost-at: want `ghost-at call name#k: lvalues`"))
			}
			site := strings.TrimSpace(rest[:i])
			if cur.GhostAt == nil {
				cur.GhostAt = map[string][]string{}
			}
			cur.GhostAt[site] = append(cur.GhostAt[site], splitTopLevel(strings.TrimSpace(rest[i+1:]))...)
		case "sink":
			parts := strings.Split(rest, " implements ")
			if len(parts) != 2 {
				return fail(fmt.Errorf("sink: want `sink <expr> implements <Type.Method>`"))
			}
			cur.Sinks = append(cur.Sinks, SinkDecl{strings.TrimSpace(parts[0]), strings.TrimSpace(parts[1])})
		case "focus":
			// focus LABEL ... on FACT ...: the obligations LABEL are proved from the quantified facts FACT only
			// (assert / invariant / ghostdef-at labels) and from every quantifier-free fact; always sound
			i := strings.Index(rest, " on ")
			if i < 0 {
				return fail(fmt.Errorf("focus: want `focus label ... on fact ...`"))
			}
			if cur.Focus == nil {
				cur.Focus = map[string]map[string]bool{}
			}
			for _, l := range strings.Fields(rest[:i]) {
				if cur.Focus[l] == nil {
					cur.Focus[l] = map[string]bool{}
				}
				for _, fl := range strings.Fields(rest[i+4:]) {
					cur.Focus[l][fl] = true
				}
			}
		case "scope":
			// scope FACT ... for LABEL ...: the facts established by the assert clauses FACT are steps towards
			// the obligations LABEL only; every other obligation is proved without them (always sound)
			i := strings.Index(rest, " for ")
			if i < 0 {
				return fail(fmt.Errorf("scope: want `scope fact ... for label ...`"))
			}
			if cur.FactFor == nil {
				cur.FactFor = map[string]map[string]bool{}
			}
			for _, fl := range strings.Fields(rest[:i]) {
				if cur.FactFor[fl] == nil {
					cur.FactFor[fl] = map[string]bool{}
				}
				for _, l := range strings.Fields(rest[i+5:]) {
					cur.FactFor[fl][l] = true
				}
			}
		case "slice":
			// slice [Cxx] without SYMBOL ...: obligations that belong to property Cxx alone are proved
			// without the facts that mention SYMBOL (dropping assumptions is always sound)
			m := regexp.MustCompile(`^\[(C\d+)\]\s+without\s+(.+)$`).FindStringSubmatch(rest)
			if m == nil {
				return fail(fmt.Errorf("slice: want `slice [Cxx] without symbol ...`"))
			}
			if cur.SliceOut == nil {
				cur.SliceOut = map[string][]string{}
			}
			cur.SliceOut[m[1]] = append(cur.SliceOut[m[1]], strings.Fields(m[2])...)
		case "locals":
			cur.Locals = append(cur.Locals, strings.Fields(rest)...)
		case "lemmas":
			// lemmas NAME ... [for LABEL ...]
			names, labels := rest, ""
			if i := strings.Index(rest, " for "); i >= 0 {
				names, labels = rest[:i], rest[i+5:]
			}
			for _, n := range strings.Fields(names) {
				cur.UseLemmas = append(cur.UseLemmas, n)
				if labels != "" {
					if cur.LemmaFor == nil {
						cur.LemmaFor = map[string]map[string]bool{}
					}
					if cur.LemmaFor[n] == nil {
						cur.LemmaFor[n] = map[string]bool{}
					}
					for _, l := range strings.Fields(labels) {
						cur.LemmaFor[n][l] = true
					}
				}
			}
		case "opaque":
			// opaque NAME ... [for LABEL ...]: the defined spec functions are uninterpreted in this function's
			// obligations (with `for`: in the obligations with these labels only)
			if i := strings.Index(rest, " for "); i >= 0 {
				if cur.OpaqueFor == nil {
					cur.OpaqueFor = map[string]map[string]bool{}
				}
				for _, n := range strings.Fields(rest[:i]) {
					if cur.OpaqueFor[n] == nil {
						cur.OpaqueFor[n] = map[string]bool{}
					}
					for _, l := range strings.Fields(rest[i+5:]) {
						cur.OpaqueFor[n][l] = true
					}
				}
			} else {
				cur.Opaque = append(cur.Opaque, strings.Fields(rest)...)
			}
		case "inline-calls":
			cur.InlineCalls = append(cur.InlineCalls, strings.Fields(rest)...)
		case "ghost-entry":
			cur.GhostEntry = true
			for _, m := range splitTopLevel(rest) {
				cur.Ghost = append(cur.Ghost, m)
			}
		case "ghost":
			for _, m := range splitTopLevel(rest) {
				cur.Ghost = append(cur.Ghost, m)
			}
		case "requires", "ensures", "onpanic", "invariant", "decreases", "writes", "assert", "lemma", "alloc-bound", "typeinv", "typeinv-entry", "ghostdef", "assumes", "rely", "transitive", "ghostdef-at":
			site := ""
			if kw == "assert" || kw == "rely" || kw == "ghostdef-at" {
				i := strings.LastIndex(rest, " @ ")
				if i < 0 {
					return fail(fmt.Errorf("assert needs `@ call name#k`"))
				}
				site = strings.TrimSpace(rest[i+3:])
				rest = strings.TrimSpace(rest[:i])
			}
			c, err := parseClause(rest)
			c.Site = site
			if err != nil {
				return fail(err)
			}
			switch kw {
			case "typeinv":
				c.Kind = "typeinv"
				cur.Requires = append(cur.Requires, c)
				cur.Ensures = append(cur.Ensures, c)
			case "rely":
				// goroutine fragment only: a fact about values another goroutine hands over, assumed
				// at the site (part of the rely condition, listed among the assumptions)
				c.Kind = "rely"
				cur.Asserts = append(cur.Asserts, c)
			case "ghostdef-at":
				cur.GhostAtDefs = append(cur.GhostAtDefs, c)
			case "transitive":
				// a postcondition that relates the post-state to the pre-state transitively (x == old(x),
				// x >= old(x) ...): it also holds across any number of calls (used by the sink rule)
				c.Kind = "transitive"
				cur.Ensures = append(cur.Ensures, c)
			case "assumes":
				// a physical bound no caller can (or needs to) establish: assumed by the function,
				// not asserted at call sites, listed among the assumptions of every check that uses it
				c.Kind = "assumed"
				cur.Requires = append(cur.Requires, c)
			case "typeinv-entry":
				// a value receiver: the object is a private copy that dies at return
				c.Kind = "typeinv"
				cur.Requires = append(cur.Requires, c)
			case "ghostdef":
				c.Kind = "ghostdef"
				cur.Ensures = append(cur.Ensures, c)
			case "requires":
				cur.Requires = append(cur.Requires, c)
			case "ensures":
				cur.Ensures = append(cur.Ensures, c)
			case "onpanic":
				cur.OnPanic = append(cur.OnPanic, c)
			case "writes":
				cur.Writes = append(cur.Writes, c)
			case "assert":
				cur.Asserts = append(cur.Asserts, c)
			case "lemma":
				cur.Lemmas = append(cur.Lemmas, c)
			case "alloc-bound":
				cc := c
				cur.AllocBound = &cc
			case "invariant":
				if curLoop == nil {
					return fail(fmt.Errorf("invariant outside loop"))
				}
				curLoop.Invs = append(curLoop.Invs, c)
			case "decreases":
				if curLoop == nil {
					return fail(fmt.Errorf("decreases outside loop"))
				}
				cc := c
				curLoop.Decreases = &cc
			}
		case "loop":
			var n int
			if _, err := fmt.Sscanf(strings.TrimSuffix(rest, ":"), "%d", &n); err != nil {
				return fail(err)
			}
			curLoop = &LoopContract{Ordinal: n}
			cur.Loops[n] = curLoop
		default:
			return fail(fmt.Errorf("unknown keyword %q", kw))
		}
	}
	return nil
}

// splitTopLevel splits a comma separated list, flattening macro-introduced outer parentheses.
func splitTopLevel(s string) []string {
	var out []string
	depth, start := 0, 0
	flush := func(end int) {
		item := strings.TrimSpace(s[start:end])
		if item == "" {
			return
		}
		// (a, b, c) from a macro: flatten
		if strings.HasPrefix(item, "(") && strings.HasSuffix(item, ")") && matchingParen(item) == len(item)-1 && strings.Contains(item, ",") {
			out = append(out, splitTopLevel(item[1:len(item)-1])...)
			return
		}
		out = append(out, item)
	}
	for i, c := range s {
		switch c {
		case '(', '[':
			depth++
		case ')', ']':
			depth--
		case ',':
			if depth == 0 {
				flush(i)
				start = i + 1
			}
		}
	}
	flush(len(s))
	return out
}

func matchingParen(s string) int {
	depth := 0
	for i, c := range s {
		switch c {
		case '(':
			depth++
		case ')':
			depth--
			if depth == 0 {
				return i
			}
		}
	}
	return -1
}
