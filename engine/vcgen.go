package main

// IVL procedures and the verification-condition generator.
//
// A Proc is a control-flow graph of blocks of guarded commands. Loops are cut
// at their heads (targets of DFS back edges): the invariant is asserted on
// every edge into the head, the cells assigned in the loop are havocked, the
// invariant is assumed. The remaining DAG is encoded with one Boolean "reach"
// definition per block and one incarnation per assignment; every assert is one
// obligation whose query is the script prefix emitted so far plus the negated
// goal. Facts are guarded by the reach condition of the point they come from,
// so a fact of a block that is not on the path to the obligation is vacuous.

import (
	"fmt"
	"regexp"
	"sort"
	"strings"
	"sync"
)

type CmdKind int

const (
	CAssign CmdKind = iota
	CHavoc
	CAssume
	CAssert
)

type Cmd struct {
	Kind      CmdKind
	Cell      *Cell
	E         Expr
	Name      string
	Props     []string
	ExpectSat bool // canary: the negated goal must be satisfiable
	Meta      map[string]string
}

type Edge struct {
	Cond Expr // nil: unconditional
	To   *Block
}

type NamedExpr struct {
	Label string
	E     Expr
	Props []string
}

type LoopSpec struct {
	FullCut   bool   // cut point: invariant asserted per incoming edge, every assigned cell havocked
	CutName   string // name used in obligation names for cut points
	Ordinal   int
	Invs      []NamedExpr
	Decreases Expr
	Props     []string
}

type Block struct {
	ID    int
	Label string
	Cmds  []Cmd
	Succs []Edge
	Loop  *LoopSpec
}

type Proc struct {
	Name      string
	Entry     *Block
	Blocks    []*Block
	RangeFact func(c *Cell) Expr // type invariant for a havocked cell (may return nil)
	ElemInv   func(c *Cell, sel Expr) Expr // type invariant of one element read from a typed memory / heap cell
	Logic     string                      // SMT-LIB logic ("" = ALL)
	NoHavoc   map[string]bool             // cells never havocked at cut points (inputs assigned once at entry)
	Props     []string
	// LemmaLine: prelude line -> lemma name (for lines that are lemma axioms). LemmaFor: lemma name -> clause
	// labels whose obligations may use it (nil = all). A lemma irrelevant to an obligation only adds
	// instantiation work, and made some obligations depend on the solver seed.
	LemmaLine map[string]string
	LemmaFor  map[string]map[string]bool
	SliceOut  map[string][]string // property -> symbols withheld from the obligations of exactly that property
	FactFor   map[string]map[string]bool // assert label -> obligation labels that may use its fact
	OpaqueFor map[string]map[string]bool // defined spec function -> obligation labels that see it uninterpreted
	Focus     map[string]map[string]bool // obligation label -> labels of the only quantified facts it is given
}

func (p *Proc) NewBlock(label string) *Block {
	b := &Block{ID: len(p.Blocks), Label: label}
	p.Blocks = append(p.Blocks, b)
	return b
}

func (b *Block) Assign(c *Cell, e Expr) {
	if c.S != e.Sort() {
		panic(fmt.Sprintf("assign sort mismatch %s:%s := %s:%s", c.Name, c.S, Print(e), e.Sort()))
	}
	b.Cmds = append(b.Cmds, Cmd{Kind: CAssign, Cell: c, E: e})
}
func (b *Block) Havoc(c *Cell)   { b.Cmds = append(b.Cmds, Cmd{Kind: CHavoc, Cell: c}) }
func (b *Block) Assume(e Expr)   { b.Cmds = append(b.Cmds, Cmd{Kind: CAssume, E: e}) }

// AssumeL: an assumption that carries the label of the contract clause it comes from (scope / focus)
func (b *Block) AssumeL(e Expr, label string) {
	b.Cmds = append(b.Cmds, Cmd{Kind: CAssume, E: e, Name: label})
}
func (b *Block) Assert(e Expr, name string, props []string) {
	b.Cmds = append(b.Cmds, Cmd{Kind: CAssert, E: e, Name: name, Props: props})
}
func (b *Block) Goto(to *Block) { b.Succs = []Edge{{nil, to}} }
func (b *Block) If(c Expr, t, e *Block) {
	b.Succs = []Edge{{c, t}, {Not(c), e}}
}

type Obligation struct {
	Proc      string
	Name      string
	Props     []string
	ExpectSat bool
	NotUnsat  bool // consistency probe: the goal is "false"; passes unless a solver derives a contradiction
	prefix    int // number of script lines that precede the goal
	goal      string
	script    *[]string
	Meta      map[string]string
	Logic     string
	gen       *vcgen
	ctx       int // block whose ancestors' facts are relevant
	// result
	Status  string // unsat / sat / unknown / timeout / error
	Solver  string
	TimeS   float64
	Output  string
	Model   string
	SMTSize int
}

// scriptInfo caches, per script line, its kind and the generated symbols (names containing '!') it mentions.
type scriptInfo struct {
	kind []byte // 'd' declare-const, 'f' nullary define-fun, 'a' assert, 'p' prelude / other
	name []string
	syms [][]string
}

var symRe = regexp.MustCompile(`[A-Za-z_$.@<>=\-][A-Za-z0-9_$.@<>=\-]*![0-9]+`)

func (g *vcgen) info(upto int) *scriptInfo {
	g.mu.Lock()
	defer g.mu.Unlock()
	if g.sinfo == nil {
		g.sinfo = &scriptInfo{}
	}
	si := g.sinfo
	for i := len(si.kind); i < upto; i++ {
		l := g.script[i]
		k, name := byte('p'), ""
		switch {
		case strings.HasPrefix(l, "(declare-const "):
			k = 'd'
			name = strings.Fields(l[len("(declare-const "):])[0]
		case strings.HasPrefix(l, "(define-fun ") && strings.Contains(l, " () "):
			k = 'f'
			name = strings.Fields(l[len("(define-fun "):])[0]
		case strings.HasPrefix(l, "(assert "):
			k = 'a'
		}
		syms := symRe.FindAllString(l, -1)
		if k != 'a' && name != "" && !strings.Contains(name, "!") {
			k = 'p'
		}
		if k == 'a' && len(syms) == 0 {
			k = 'p' // a global axiom of the prelude
		}
		si.kind = append(si.kind, k)
		si.name = append(si.name, name)
		si.syms = append(si.syms, syms)
	}
	return si
}

// Query renders the obligation: the script prefix sliced to the cone of influence of the goal
// (definitions the goal does not depend on, and assumptions that share no symbol with the cone,
// are dropped: sound for an `unsat` verdict), followed by the negated goal.
func (o *Obligation) Query(models bool) string {
	var sb strings.Builder
	if models {
		sb.WriteString("(set-option :produce-models true)\n")
	}
	if o.Logic != "" {
		sb.WriteString("(set-logic " + o.Logic + ")\n")
	} else {
		sb.WriteString("(set-logic ALL)\n")
	}
	lines := (*o.script)[:o.prefix]
	keep := make([]bool, len(lines))
	if o.ExpectSat || o.gen == nil {
		for i := range keep {
			keep[i] = true
		}
	} else {
		si := o.gen.info(o.prefix)
		cone := map[string]bool{}
		for _, s := range symRe.FindAllString(o.goal, -1) {
			cone[s] = true
		}
		defLine := map[string]int{}
		for i := 0; i < o.prefix; i++ {
			if si.kind[i] == 'd' || si.kind[i] == 'f' {
				defLine[si.name[i]] = i
			}
		}
		var work []string
		for s := range cone {
			work = append(work, s)
		}
		pendingAsserts := []int{}
		anc := o.gen.anc[o.ctx]
		for i := 0; i < o.prefix; i++ {
			switch si.kind[i] {
			case 'p':
				keep[i] = true
				if ln, ok := o.gen.p.LemmaLine[lines[i]]; ok {
					if labels := o.gen.p.LemmaFor[ln]; labels != nil && !labels[clauseLabel(o.Name)] {
						keep[i] = false
					}
				}
			case 'a':
				// a guarded fact matters only if its block lies on a path to the obligation
				if lb := o.gen.lineBlk[i]; lb == -1 || lb == o.ctx || anc[lb] {
					if ll := o.gen.lineLabel[i]; ll != "" {
						if users := o.gen.p.FactFor[ll]; users != nil && !users[clauseLabel(o.Name)] {
							continue
						}
					}
					if focus := o.gen.p.Focus[clauseLabel(o.Name)]; focus != nil && !focus[o.gen.lineLabel[i]] &&
						(strings.Contains(lines[i], "(forall ") || strings.Contains(lines[i], "(exists ")) {
						continue
					}
					if len(o.Props) == 1 {
						withheld := false
						for _, sym := range o.gen.p.SliceOut[o.Props[0]] {
							if strings.Contains(lines[i], sym) {
								withheld = true
								break
							}
						}
						if withheld {
							continue
						}
					}
					pendingAsserts = append(pendingAsserts, i)
				}
			}
		}
		add := func(sym string) {
			if !cone[sym] {
				cone[sym] = true
				work = append(work, sym)
			}
		}
		for {
			for len(work) > 0 {
				s := work[len(work)-1]
				work = work[:len(work)-1]
				if i, ok := defLine[s]; ok && !keep[i] {
					keep[i] = true
					for _, t := range si.syms[i] {
						add(t)
					}
				}
			}
			changed := false
			rest := pendingAsserts[:0]
			for _, i := range pendingAsserts {
				hit := false
				for _, t := range si.syms[i] {
					if cone[t] {
						hit = true
						break
					}
				}
				if hit {
					keep[i] = true
					changed = true
					for _, t := range si.syms[i] {
						add(t)
					}
				} else {
					rest = append(rest, i)
				}
			}
			pendingAsserts = rest
			if !changed && len(work) == 0 {
				break
			}
		}
	}
	for i, l := range lines {
		if !keep[i] {
			continue
		}
		if o.gen != nil && len(o.gen.p.OpaqueFor) > 0 && strings.HasPrefix(l, "(define-fun ") {
			if name, sig, ok := parseFunSig(l); ok && o.gen.p.OpaqueFor[name][clauseLabel(o.Name)] {
				args := make([]string, len(sig.Args))
				for j, a := range sig.Args {
					args[j] = string(a)
				}
				l = fmt.Sprintf("(declare-fun %s (%s) %s)", name, strings.Join(args, " "), sig.Ret)
			}
		}
		if o.ExpectSat && strings.HasPrefix(l, "(assert") && (strings.Contains(l, "(forall ") || strings.Contains(l, "(exists ")) {
			continue // canaries: quantified facts are dropped so that a solver can answer sat
		}
		if o.ExpectSat && o.gen != nil && i < len(o.gen.fromAssert) && o.gen.fromAssert[i] && strings.HasPrefix(l, "(assert") {
			continue // canaries: facts that are themselves obligations (asserts of the code and of the contract) add nothing
		}
		sb.WriteString(l)
		sb.WriteByte('\n')
	}
	sb.WriteString(o.goal)
	sb.WriteString("\n(check-sat)\n")
	if models {
		sb.WriteString("(get-model)\n")
	}
	return sb.String()
}

// clauseLabel: "pkg.F/kind/.../label#k" -> "label"
func clauseLabel(name string) string {
	if i := strings.LastIndex(name, "/"); i >= 0 {
		name = name[i+1:]
	}
	if i := strings.Index(name, "#"); i >= 0 {
		name = name[:i]
	}
	return name
}

type vcState map[string]Expr

func (s vcState) clone() vcState {
	n := make(vcState, len(s))
	for k, v := range s {
		n[k] = v
	}
	return n
}

type inEdge struct {
	guard Expr
	state vcState
	from  *Block
}

type vcgen struct {
	p       *Proc
	script  []string
	obls    []*Obligation
	counter map[string]int
	oblSeq  map[string]int
	seenElem map[string]bool
	byteSums map[string][]Expr // Var name -> its little-endian bytes (resolved select terms)
	hasIte   map[string]bool   // macros whose expansion contains an if-then-else
	fromAssert   []bool // per script line: emitted as the consequence of an assert command
	lineLabel    []string // per script line: label of the assert clause whose fact it is ("" otherwise)
	curFactLabel string
	inAssertFact bool
	sinfo    *scriptInfo
	mu       sync.Mutex
	lineBlk  []int              // emitting block of each script line (-1: global)
	curBlk   int
	anc      map[int]map[int]bool // block -> ancestor blocks (through forward edges, stopping at cut points)
	ctxBlk   int                // context block for the obligation being emitted
}

func (g *vcgen) emit(l string) {
	g.script = append(g.script, l)
	g.lineBlk = append(g.lineBlk, g.curBlk)
	g.fromAssert = append(g.fromAssert, g.inAssertFact)
	g.lineLabel = append(g.lineLabel, g.curFactLabel)
}

func (g *vcgen) fresh(base string, s Sort) *Var {
	g.counter[base]++
	name := fmt.Sprintf("%s!%d", sanitize(base), g.counter[base])
	return &Var{name, s}
}

func sanitize(s string) string {
	var sb strings.Builder
	for _, c := range s {
		switch {
		case c >= 'a' && c <= 'z', c >= 'A' && c <= 'Z', c >= '0' && c <= '9', c == '_', c == '.', c == '$', c == '@', c == '!', c == '-', c == '=', c == '<', c == '>':
			sb.WriteRune(c)
		case c == '*':
			sb.WriteByte('p')
		default:
			sb.WriteByte('_')
		}
	}
	return sb.String()
}

func (g *vcgen) declare(v *Var) { g.emit(fmt.Sprintf("(declare-const %s %s)", v.Name, v.S)) }

func (g *vcgen) define(base string, e Expr, st vcState) Expr {
	// cheap aliases need no definition
	switch x := e.(type) {
	case *Lit:
		return x
	case *Var:
		return x
	case *Cell:
		v, ok := st[x.Name]
		if !ok {
			panic("cell read before assignment: " + x.Name + " in " + g.p.Name)
		}
		return v
	}
	g.elemFacts(e, st)
	var bytes []Expr
	if e.Sort() == SInt {
		e, bytes = g.byteSumSimplify(e, st)
	} else if e.Sort() == SBool {
		g.byteSumEquality(e, st)
	}
	v := g.fresh(base, e.Sort())
	if bytes != nil {
		g.byteSums[v.Name] = bytes
	}
	tainted := g.iteTainted(e, st)
	if tainted {
		g.hasIte[v.Name] = true
	}
	if a, ok := e.(*App); ok && a.Op == "store" {
		if in, ok := a.Args[0].(*App); (ok && in.Op == "store") || tainted {
			// a chain of stores: a name of its own (not a macro), so that quantifier patterns over
			// the new memory mention a constant and not the chain
			g.emit(fmt.Sprintf("(declare-const %s %s)", v.Name, v.S))
			g.emit(fmt.Sprintf("(assert (= %s %s))", v.Name, PrintIn(e, st)))
			return v
		}
	}
	g.emit(fmt.Sprintf("(define-fun %s () %s %s)", v.Name, v.S, PrintIn(e, st)))
	if a, ok := e.(*App); ok && a.Op == "bit.xor" && len(a.Args) == 2 {
		g.byteSumXor(v, a, st)
	}
	return v
}

// Little-endian words. A value Σ 256^i·b_i over elements b_i of the byte memory (each in 0..255,
// the memory model's invariant, asserted for every element read) is remembered with its bytes;
// `x mod 256^k` and `x div 256^k` of such a value are then written as the sum of the bytes they
// keep -- what uint32(w), w>>8 ... are -- instead of leaving the solver to rediscover it through
// div/mod of a 64-bit sum.
func byteSumTerms(e Expr) []Expr {
	var terms []Expr
	var flat func(x Expr) bool
	flat = func(x Expr) bool {
		if a, ok := x.(*App); ok && a.Op == "+" {
			for _, y := range a.Args {
				if !flat(y) {
					return false
				}
			}
			return true
		}
		terms = append(terms, x)
		return true
	}
	flat(e)
	if len(terms) < 2 || len(terms) > 8 {
		return nil
	}
	out := make([]Expr, len(terms))
	for _, tm := range terms {
		k := 0
		b := tm
		if a, ok := tm.(*App); ok && a.Op == "*" && len(a.Args) == 2 {
			c, ok := litInt(a.Args[0])
			b = a.Args[1]
			if !ok {
				c, ok = litInt(a.Args[1])
				b = a.Args[0]
			}
			if !ok || c.Sign() <= 0 || c.BitLen()%8 != 1 || c.Cmp(pow2(c.BitLen()-1)) != 0 {
				return nil
			}
			k = (c.BitLen() - 1) / 8
		}
		sel, ok := b.(*App)
		if !ok || sel.Op != "select" || k >= len(out) || out[k] != nil {
			return nil
		}
		if m, ok := sel.Args[0].(*Var); !ok || !strings.HasPrefix(m.Name, "M_uint8") {
			return nil
		}
		out[k] = b
	}
	return out
}

func sumOfBytes(bs []Expr) Expr {
	if len(bs) == 0 {
		return IntLit(0)
	}
	e := bs[0]
	for i := 1; i < len(bs); i++ {
		e = IAdd(e, IMul(BigLit(pow2(8*i)), bs[i]))
	}
	return e
}

func (g *vcgen) byteSumSimplify(e Expr, st vcState) (Expr, []Expr) {
	res := RenameCells(e, func(c *Cell) Expr {
		if v, ok := st[c.Name]; ok {
			return v
		}
		return c
	})
	bytesOf := func(x Expr) []Expr {
		if v, ok := x.(*Var); ok {
			return g.byteSums[v.Name]
		}
		return byteSumTerms(x)
	}
	if a, ok := res.(*App); ok && (a.Op == "mod" || a.Op == "div") && len(a.Args) == 2 {
		if c, ok := litInt(a.Args[1]); ok && c.Sign() > 0 && c.BitLen()%8 == 1 && c.Cmp(pow2(c.BitLen()-1)) == 0 {
			k := (c.BitLen() - 1) / 8
			if bs := bytesOf(a.Args[0]); bs != nil {
				var keep []Expr
				if a.Op == "mod" {
					if k < len(bs) {
						keep = bs[:k]
					} else {
						keep = bs
					}
				} else if k < len(bs) {
					keep = bs[k:]
				}
				if len(keep) >= 2 {
					return sumOfBytes(keep), keep
				}
				return sumOfBytes(keep), nil
			}
		}
		return e, nil
	}
	if bs := byteSumTerms(res); bs != nil {
		return e, bs
	}
	return e, nil
}

// iteTainted: e, with the macros it mentions expanded, contains an if-then-else. z3 refuses such
// a term inside a quantifier pattern, so a memory defined by it must not be a macro.
func (g *vcgen) iteTainted(e Expr, st vcState) bool {
	switch x := e.(type) {
	case *Cell:
		if v, ok := st[x.Name]; ok {
			return g.iteTainted(v, nil)
		}
	case *Var:
		return g.hasIte[x.Name]
	case *App:
		if x.Op == "ite" {
			return true
		}
		for _, a := range x.Args {
			if g.iteTainted(a, st) {
				return true
			}
		}
	}
	return false
}

// byteSumEquality: two little-endian words of the same width are equal iff their bytes are
// (each byte is in 0..255); stated when such a comparison is defined.
func (g *vcgen) byteSumEquality(e Expr, st vcState) {
	a, ok := e.(*App)
	if ok && a.Op == "not" && len(a.Args) == 1 {
		a, ok = a.Args[0].(*App)
	}
	if !ok || a.Op != "=" || len(a.Args) != 2 {
		return
	}
	side := func(x Expr) (Expr, []Expr) {
		if c, ok := x.(*Cell); ok {
			x = st[c.Name]
		}
		if v, ok := x.(*Var); ok {
			return v, g.byteSums[v.Name]
		}
		return nil, nil
	}
	x, bx := side(a.Args[0])
	y, by := side(a.Args[1])
	if bx == nil || by == nil || len(bx) != len(by) {
		return
	}
	var eqs []Expr
	for i := range bx {
		eqs = append(eqs, Eq(bx[i], by[i]))
	}
	g.emit("(assert (= " + Print(Eq(x, y)) + " " + Print(And(eqs...)) + "))")
}

// byteSumXor: x = a ^ b for two little-endian words of the same width. x is zero iff all bytes
// agree, and the low 8k bits of x are zero only if the first k bytes agree (what
// TrailingZeros64(x)>>3 is used for).
func (g *vcgen) byteSumXor(x *Var, a *App, st vcState) {
	side := func(e Expr) []Expr {
		if c, ok := e.(*Cell); ok {
			e = st[c.Name]
		}
		if v, ok := e.(*Var); ok {
			return g.byteSums[v.Name]
		}
		return nil
	}
	ba, bb := side(a.Args[0]), side(a.Args[1])
	if ba == nil || len(ba) != len(bb) {
		return
	}
	var eqs []Expr
	for i := range ba {
		eqs = append(eqs, Eq(ba[i], bb[i]))
	}
	g.emit("(assert (= (= " + x.Name + " 0) " + Print(And(eqs...)) + "))")
	for k := 1; k < len(ba); k++ {
		g.emit(fmt.Sprintf("(assert (=> (= (mod %s %s) 0) %s))", x.Name, pow2(8*k).String(), Print(And(eqs[:k]...))))
	}
}

// rangeFact asserts the type invariant of a freshly declared incarnation.
func (g *vcgen) rangeFact(c *Cell, nv *Var) {
	if g.p.RangeFact == nil {
		return
	}
	if rf := g.p.RangeFact(c); rf != nil {
		g.fact(True, rf, vcState{c.Name: nv})
	}
}

func (g *vcgen) fact(guard Expr, e Expr, st vcState) {
	f := Implies(guard, e)
	if isLit(f, "true") {
		return
	}
	g.elemFacts(e, st)
	g.emit("(assert " + PrintIn(f, st) + ")")
}

// elemFacts: every ground read of a typed memory or heap cell that occurs in e
// satisfies its element type's invariant (0 <= byte < 256, slice well-formedness, ...).
// These are emitted as ground facts at the point of use; quantified range axioms
// over whole arrays amplify the array theory's instantiations badly.
func (g *vcgen) elemFacts(e Expr, st vcState) {
	if g.p.ElemInv == nil || e == nil {
		return
	}
	var walk func(x Expr, bound map[string]bool)
	mentionsBound := func(x Expr, bound map[string]bool) bool {
		if len(bound) == 0 {
			return false
		}
		found := false
		var w func(y Expr)
		w = func(y Expr) {
			switch z := y.(type) {
			case *Var:
				if bound[z.Name] {
					found = true
				}
			case *App:
				for _, a := range z.Args {
					w(a)
				}
			case *Quant:
				w(z.Body)
			}
		}
		w(x)
		return found
	}
	walk = func(x Expr, bound map[string]bool) {
		switch z := x.(type) {
		case *App:
			if z.Op == "select" && len(z.Args) == 2 {
				var c *Cell
				switch a := z.Args[0].(type) {
				case *Cell:
					c = a
				case *App:
					if a.Op == "select" {
						if cc, ok := a.Args[0].(*Cell); ok {
							c = cc
						}
					}
				}
				if c != nil && !mentionsBound(z, bound) {
					if inv := g.p.ElemInv(c, z); inv != nil {
						txt := "(assert " + PrintIn(inv, st) + ")"
						if !g.seenElem[txt] {
							g.seenElem[txt] = true
							g.emit(txt)
						}
					}
				}
			}
			for _, a := range z.Args {
				walk(a, bound)
			}
		case *Quant:
			nb := map[string]bool{}
			for k := range bound {
				nb[k] = true
			}
			for _, v := range z.Vars {
				nb[v.Name] = true
			}
			walk(z.Body, nb)
		}
	}
	walk(e, nil)
}

func (g *vcgen) obligation(guard Expr, c Cmd, st vcState) {
	g.oblSeq[c.Name]++
	name := c.Name
	if !strings.Contains(name, "#") {
		name = fmt.Sprintf("%s#%d", c.Name, g.oblSeq[c.Name])
	}
	g.elemFacts(c.E, st)
	goal := "(assert (not " + PrintIn(Implies(guard, c.E), st) + "))"
	o := &Obligation{Proc: g.p.Name, Name: g.p.Name + "/" + name, Props: c.Props, ExpectSat: c.ExpectSat,
		prefix: len(g.script), goal: goal, script: &g.script, Meta: c.Meta, Logic: g.p.Logic, gen: g, ctx: g.ctxBlk}
	g.obls = append(g.obls, o)
	if !c.ExpectSat {
		// the asserted condition holds from here on (it is an obligation of its own); canaries do not
		// need these facts: a proved fact cannot make a path vacuous
		g.inAssertFact = true
		g.curFactLabel = clauseLabel(name)
		g.fact(guard, c.E, st)
		g.inAssertFact = false
		g.curFactLabel = ""
	}
}

// GenVCs generates all obligations of p. prelude is SMT-LIB text (sort and
// spec-function declarations) placed before everything else.
func GenVCs(p *Proc, prelude []string) (obls []*Obligation, err error) {
	defer func() {
		if r := recover(); r != nil {
			if s, ok := r.(string); ok {
				err = fmt.Errorf("vcgen %s: %s", p.Name, s)
				return
			}
			panic(r)
		}
	}()
	g := &vcgen{p: p, counter: map[string]int{}, oblSeq: map[string]int{}, seenElem: map[string]bool{}, byteSums: map[string][]Expr{}, hasIte: map[string]bool{}, curBlk: -1, anc: map[int]map[int]bool{}, ctxBlk: -1}
	for _, l := range prelude {
		g.emit(l)
	}

	// --- back edges (DFS) ---
	type ekey struct{ from, idx int }
	back := map[ekey]bool{}
	color := map[int]int{}
	var dfs func(b *Block)
	dfs = func(b *Block) {
		color[b.ID] = 1
		for i, e := range b.Succs {
			switch color[e.To.ID] {
			case 0:
				dfs(e.To)
			case 1:
				back[ekey{b.ID, i}] = true
			}
		}
		color[b.ID] = 2
	}
	dfs(p.Entry)

	// predecessors over forward edges, restricted to reachable blocks
	preds := map[int][]*Block{}
	for _, b := range p.Blocks {
		if color[b.ID] == 0 {
			continue
		}
		for i, e := range b.Succs {
			if !back[ekey{b.ID, i}] {
				preds[e.To.ID] = append(preds[e.To.ID], b)
			}
		}
	}
	// --- natural loops and mod sets ---
	allPreds := map[int][]*Block{}
	for _, b := range p.Blocks {
		if color[b.ID] == 0 {
			continue
		}
		for _, e := range b.Succs {
			allPreds[e.To.ID] = append(allPreds[e.To.ID], b)
		}
	}
	heads := map[int]bool{}
	loopBody := map[int]map[int]bool{}
	for _, b := range p.Blocks {
		for i, e := range b.Succs {
			if back[ekey{b.ID, i}] {
				h := e.To
				heads[h.ID] = true
				if loopBody[h.ID] == nil {
					loopBody[h.ID] = map[int]bool{h.ID: true}
				}
				// backwards from b until h
				stack := []*Block{b}
				for len(stack) > 0 {
					x := stack[len(stack)-1]
					stack = stack[:len(stack)-1]
					if loopBody[h.ID][x.ID] {
						continue
					}
					loopBody[h.ID][x.ID] = true
					stack = append(stack, allPreds[x.ID]...)
				}
			}
		}
	}
	modset := map[int]map[string]*Cell{}
	for h, body := range loopBody {
		ms := map[string]*Cell{}
		for _, b := range p.Blocks {
			if !body[b.ID] {
				continue
			}
			for _, c := range b.Cmds {
				if c.Kind == CAssign || c.Kind == CHavoc {
					ms[c.Cell.Name] = c.Cell
				}
			}
		}
		modset[h] = ms
	}
	for h := range heads {
		if p.Blocks[h].Loop == nil {
			p.Blocks[h].Loop = &LoopSpec{Ordinal: -1}
		}
	}

	// --- topological order over forward edges ---
	indeg := map[int]int{}
	for id, ps := range preds {
		indeg[id] = len(ps)
	}
	var order []*Block
	queue := []*Block{p.Entry}
	for len(queue) > 0 {
		b := queue[0]
		queue = queue[1:]
		order = append(order, b)
		for i, e := range b.Succs {
			if back[ekey{b.ID, i}] {
				continue
			}
			indeg[e.To.ID]--
			if indeg[e.To.ID] == 0 {
				queue = append(queue, e.To)
			}
		}
	}

	incoming := map[int][]inEdge{}
	incoming[p.Entry.ID] = []inEdge{{True, vcState{}, nil}}
	decAtHead := map[int]Expr{}

	for _, b := range order {
		ins := incoming[b.ID]
		if len(ins) == 0 {
			continue
		}
		g.curBlk, g.ctxBlk = b.ID, b.ID
		if b == p.Entry {
			g.curBlk = -1 // facts of the entry block hold unconditionally (inputs are never havocked)
		}
		isCut := b.Loop != nil && b.Loop.FullCut
		a := map[int]bool{}
		if !isCut {
			for _, in := range ins {
				if in.from != nil {
					a[in.from.ID] = true
					for k := range g.anc[in.from.ID] {
						a[k] = true
					}
				}
			}
		}
		g.anc[b.ID] = a
		// reach condition
		var guards []Expr
		for _, in := range ins {
			guards = append(guards, in.guard)
		}
		var reach Expr
		if b == p.Entry || isCut {
			// a cut point is verified for every state satisfying its invariant
			reach = True
		} else {
			rv := g.fresh(fmt.Sprintf("reach_b%d", b.ID), SBool)
			g.emit(fmt.Sprintf("(define-fun %s () Bool %s)", rv.Name, Print(Or(guards...))))
			reach = rv
		}
		// merge states
		st := vcState{}
		if len(ins) == 1 {
			st = ins[0].state.clone()
		} else {
			names := map[string]bool{}
			for _, in := range ins {
				for k := range in.state {
					names[k] = true
				}
			}
			keys := make([]string, 0, len(names))
			for k := range names {
				keys = append(keys, k)
			}
			sort.Strings(keys)
			for _, k := range keys {
				var first Expr
				same := true
				missing := false
				for _, in := range ins {
					v, ok := in.state[k]
					if !ok {
						missing = true
						continue
					}
					if first == nil {
						first = v
					} else if Print(first) != Print(v) {
						same = false
					}
				}
				if missing {
					// not definitely assigned on every path: out of scope after the join
					// (SSA registers and block-local variables of one branch)
					continue
				}
				if same {
					st[k] = first
					continue
				}
				nv := g.fresh(k, first.Sort())
				g.declare(nv)
				g.rangeFact(&Cell{k, first.Sort()}, nv)
				for _, in := range ins {
					if v, ok := in.state[k]; ok {
						g.fact(in.guard, Eq(nv, v), nil)
					}
				}
				st[k] = nv
			}
		}
		// loop head (or an annotated cut point)
		if heads[b.ID] || (b.Loop != nil && b.Loop.FullCut) {
			ls := b.Loop
			lname := fmt.Sprintf("loop%d", ls.Ordinal)
			if ls.FullCut {
				lname = "cut/" + ls.CutName
				// one obligation per incoming edge, in that edge's own state
				for _, in := range ins {
					if in.from != nil {
						g.ctxBlk, g.curBlk = in.from.ID, in.from.ID
					}
					for _, inv := range ls.Invs {
						g.obligation(in.guard, Cmd{Kind: CAssert, E: inv.E, Name: "inv-establish/" + lname + "/" + inv.Label, Props: inv.Props}, in.state)
					}
				}
				g.ctxBlk, g.curBlk = b.ID, b.ID
			} else {
				// entry(e) in the invariants: the cells of e as they are on arrival from outside the loop
				epre := fmt.Sprintf("entry$%d$", ls.Ordinal)
				ecells := map[string]Sort{}
				for _, inv := range ls.Invs {
					CellsOf(inv.E, ecells)
				}
				for name := range ecells {
					if strings.HasPrefix(name, epre) {
						if v, ok := st[strings.TrimPrefix(name, epre)]; ok {
							st[name] = v
						} else {
							panic("entry(): " + strings.TrimPrefix(name, epre) + " is not live at the head of loop " + itoa(ls.Ordinal) + " in " + g.p.Name)
						}
					}
				}
				for _, inv := range ls.Invs {
					g.obligation(reach, Cmd{Kind: CAssert, E: inv.E, Name: "inv-establish/" + lname + "/" + inv.Label, Props: inv.Props}, st)
				}
			}
			ms := modset[b.ID]
			if ls.FullCut {
				// havoc every cell that is assigned anywhere in the procedure
				ms = map[string]*Cell{}
				for _, bb := range p.Blocks {
					for _, c := range bb.Cmds {
						if (c.Kind == CAssign || c.Kind == CHavoc) && !p.NoHavoc[c.Cell.Name] {
							ms[c.Cell.Name] = c.Cell
						}
					}
				}
			}
			mkeys := make([]string, 0, len(ms))
			for k := range ms {
				mkeys = append(mkeys, k)
			}
			sort.Strings(mkeys)
			for _, k := range mkeys {
				c := ms[k]
				if _, ok := st[k]; !ok {
					continue // declared inside the loop; not live at the head
				}
				nv := g.fresh(k, c.S)
				g.declare(nv)
				st[k] = nv
				g.rangeFact(c, nv)
			}
			for _, inv := range ls.Invs {
				g.curFactLabel = inv.Label // `scope` may confine an invariant's fact to the obligations that need it
				g.fact(reach, inv.E, st)
				g.curFactLabel = ""
			}
			if ls.Decreases != nil {
				decAtHead[b.ID] = g.define("dec_"+lname, ls.Decreases, st)
			}
		}
		// commands
		for _, c := range b.Cmds {
			switch c.Kind {
			case CAssign:
				st[c.Cell.Name] = g.define(c.Cell.Name, c.E, st)
			case CHavoc:
				nv := g.fresh(c.Cell.Name, c.Cell.S)
				g.declare(nv)
				st[c.Cell.Name] = nv
				g.rangeFact(c.Cell, nv)
			case CAssume:
				g.curFactLabel = c.Name
				g.fact(reach, c.E, st)
				g.curFactLabel = ""
			case CAssert:
				g.obligation(reach, c, st)
			}
		}
		// edges
		for i, e := range b.Succs {
			var guard Expr = reach
			if e.Cond != nil {
				gv := g.fresh(fmt.Sprintf("edge_b%d_%d", b.ID, i), SBool)
				g.emit(fmt.Sprintf("(define-fun %s () Bool %s)", gv.Name, PrintIn(And(reach, e.Cond), st)))
				guard = gv
			}
			if back[ekey{b.ID, i}] {
				h := e.To
				ls := h.Loop
				lname := fmt.Sprintf("loop%d", ls.Ordinal)
				if ls.FullCut {
					lname = "cut/" + ls.CutName
				}
				for _, inv := range ls.Invs {
					g.obligation(guard, Cmd{Kind: CAssert, E: inv.E, Name: "inv-preserve/" + lname + "/" + inv.Label, Props: inv.Props}, st)
				}
				if ls.Decreases != nil {
					d0 := decAtHead[h.ID]
					dec := And(ILe(IntLit(0), d0), ILt(ls.Decreases, d0))
					if ls.Decreases.Sort().IsBV() {
						dec = mk("bvult", SBool, ls.Decreases, d0)
					}
					g.obligation(guard, Cmd{Kind: CAssert, E: dec, Name: "decreases/" + lname, Props: ls.Props}, st)
				}
				g.obligation(guard, Cmd{Kind: CAssert, E: False, Name: "canary/backedge/" + lname, ExpectSat: true, Props: ls.Props}, st)
				continue
			}
			incoming[e.To.ID] = append(incoming[e.To.ID], inEdge{guard, st.clone(), b})
		}
	}
	return g.obls, nil
}
