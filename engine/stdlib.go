package main

// Trusted contracts of standard-library functions, interface methods and
// function-typed values. Every use is recorded in the evidence as an assumption.

import (
	"go/constant"
	"go/types"
	"strings"
	"math/big"

	"golang.org/x/tools/go/ssa"
)

type callHandler func(f *frame, c *ssa.CallCommon, args []sval) []sval

var trustedCalls = map[string]callHandler{}
var invokeContracts = map[string]callHandler{}
var dynamicContracts = map[string]callHandler{}

func init() {
	u16, u32, u64 := types.Typ[types.Uint16], types.Typ[types.Uint32], types.Typ[types.Uint64]
	leGet := func(n int, rt types.Type) callHandler {
		return func(f *frame, c *ssa.CallCommon, args []sval) []sval {
			t := f.t
			th := t.th
			b := args[len(args)-1] // receiver littleEndian is args[0]
			f.check(th.ALe(th.AddrLit(int64(n)), th.SLen(b.e)), "binary-le-short")
			mem := t.mem(types.Typ[types.Uint8])
			p := t.newTemp("lep", th.SPtr(b.e))
			if !th.bv {
				// bytes are in range
				for i := 0; i < n; i++ {
					by := Select(mem, th.AAdd(p, th.AddrLit(int64(i))))
					t.cur.Assume(And(ILe(IntLit(0), by), ILt(by, IntLit(256))))
				}
			}
			v := t.newTemp("le", f.leLoad(mem, p, n))
			return []sval{{e: v, typ: rt}}
		}
	}
	lePut := func(n int) callHandler {
		return func(f *frame, c *ssa.CallCommon, args []sval) []sval {
			t := f.t
			th := t.th
			b, v := args[len(args)-2], args[len(args)-1]
			f.check(th.ALe(th.AddrLit(int64(n)), th.SLen(b.e)), "binary-le-short")
			mem := t.mem(types.Typ[types.Uint8])
			p := t.newTemp("lep", th.SPtr(b.e))
			t.checkWrite(mem, p, th.AAdd(p, th.AddrLit(int64(n))), "binary-put")
			var e Expr = mem
			for i := 0; i < n; i++ {
				var by Expr
				if th.bv {
					by = mk("(_ extract "+itoa(8*i+7)+" "+itoa(8*i)+")", BV(8), v.e)
				} else {
					by = mk("mod", SInt, mk("div", SInt, v.e, BigLit(pow2(8*i))), IntLit(256))
				}
				e = Store(e, th.AAdd(p, th.AddrLit(int64(i))), by)
			}
			t.cur.Assign(mem, e)
			if !th.bv {
				// recomposition lemma (trivial in bit-vectors: concat of extracts): reading the
				// bytes back little-endian gives the value; hard for linear integer arithmetic
				t.cur.Assume(Eq(f.leLoad(mem, p, n), v.e))
				t.assumptions["lemma: little-endian byte decomposition/recomposition of an n-byte value is the identity (Int reading of a bit-vector fact)"] = true
			}
			return nil
		}
	}
	trustedCalls["(encoding/binary.littleEndian).Uint16"] = leGet(2, u16)
	trustedCalls["(encoding/binary.littleEndian).Uint32"] = leGet(4, u32)
	trustedCalls["(encoding/binary.littleEndian).Uint64"] = leGet(8, u64)
	trustedCalls["(encoding/binary.littleEndian).PutUint16"] = lePut(2)
	trustedCalls["(encoding/binary.littleEndian).PutUint32"] = lePut(4)
	trustedCalls["(encoding/binary.littleEndian).PutUint64"] = lePut(8)

	trustedCalls["math/bits.TrailingZeros64"] = func(f *frame, c *ssa.CallCommon, args []sval) []sval {
		t := f.t
		th := t.th
		intT := types.Typ[types.Int]
		x := args[0].e
		if th.bv {
			// exact: ite chain over the lowest set bit
			var e Expr = BVLit64(64, 64)
			for i := 63; i >= 0; i-- {
				bit := mk("(_ extract "+itoa(i)+" "+itoa(i)+")", BV(1), x)
				e = Ite(Eq(bit, BVLit64(1, 1)), BVLit64(uint64(i), 64), e)
			}
			return []sval{{e: t.newTemp("tz", e), typ: intT}}
		}
		r := t.havocTemp("tz", SInt, intT)
		t.cur.Assume(And(ILe(IntLit(0), r), ILe(r, IntLit(64)), Eq(Eq(r, IntLit(64)), Eq(x, IntLit(0)))))
		// at the byte granularity the code uses: at least 8k trailing zeros only if x is a multiple of 256^k
		for k := 1; k <= 7; k++ {
			t.cur.Assume(Implies(IGe(r, IntLit(int64(8*k))), Eq(mk("mod", SInt, x, BigLit(pow2(8*k))), IntLit(0))))
		}
		// x is a multiple of 2^r and not of 2^(r+1): stated for the byte granularity the code uses
		return []sval{{e: r, typ: intT}}
	}

	trustedCalls["(*sync.Pool).Get"] = poolGet
	trustedCalls["(*sync.Pool).Put"] = func(f *frame, c *ssa.CallCommon, args []sval) []sval { return nil }
	// sync.WaitGroup only orders goroutines: it reads and writes no modelled memory.
	for _, m := range []string{"Add", "Done", "Wait"} {
		trustedCalls["(*sync.WaitGroup)."+m] = func(f *frame, c *ssa.CallCommon, args []sval) []sval {
			f.t.assumptions["sync.WaitGroup calls only order goroutines; they touch no modelled memory (goroutine scheduling is outside the contracts: C08 is decided by the bounded schedule exploration)"] = true
			return nil
		}
	}
	trustedCalls["runtime.GOMAXPROCS"] = func(f *frame, c *ssa.CallCommon, args []sval) []sval {
		t := f.t
		r := t.havocTemp("gomaxprocs", t.th.SortOf(types.Typ[types.Int]), types.Typ[types.Int])
		t.cur.Assume(t.th.SLt(t.th.IntConst(big.NewInt(0), types.Typ[types.Int]), r))
		return []sval{{e: r, typ: types.Typ[types.Int]}}
	}
}

func itoa(i int) string { return big.NewInt(int64(i)).String() }

// poolGet: sync.Pool.Get on one of the package pools returns a value of the
// pool's element type with arbitrary contents (fresh allocation or recycled).
func poolGet(f *frame, c *ssa.CallCommon, args []sval) []sval {
	t := f.t
	th := t.th
	g, ok := c.Args[0].(*ssa.Global)
	if !ok {
		fail("sync.Pool.Get on a non-global pool")
	}
	ifaceT := c.Signature().Results().At(0).Type()
	name := g.Pkg.Pkg.Name() + "." + g.Name()
	switch name {
	case "lz4block.compressorPool", "lz4block.compressorHCPool":
		tn := "Compressor"
		if name == "lz4block.compressorHCPool" {
			tn = "CompressorHC"
		}
		obj := g.Pkg.Pkg.Scope().Lookup(tn)
		pt := types.NewPointer(obj.Type())
		// a fresh object id whose fields/arrays are unconstrained (recycled contents)
		o := t.newTemp("poolobj", t.objTop())
		t.cur.Assign(t.objTop(), th.AAdd(t.objTop(), th.AddrLit(1)))
		t.cur.Assume(th.ALt(t.objTop(), th.AddrLit(1<<16)))
		if tn == "CompressorHC" {
			// representation invariant of pooled objects: either fresh from New (all zero)
			// or previously used and Put back (needsReset == true)
			n, st := namedStruct(obj.Type())
			var nr, ht, ct int
			for i := 0; i < st.NumFields(); i++ {
				switch st.Field(i).Name() {
				case "needsReset":
					nr = i
				case "hashTable":
					ht = i
				case "chainTable":
					ct = i
				}
			}
			mem := t.mem(types.Typ[types.Int])
			j := &Var{"j!p", th.Addr()}
			in := And(th.ALe(th.AddrLit(0), j), th.ALt(j, th.AddrLit(65536)))
			zero := th.Zero(types.Typ[types.Int])
			body := Implies(in, And(Eq(Select(mem, th.AAdd(t.embArr(o, n, ht), j)), zero), Eq(Select(mem, th.AAdd(t.embArr(o, n, ct), j)), zero)))
			t.cur.Assume(Implies(Not(Select(t.heap(n, nr), o)), &Quant{Forall: true, Vars: []*Var{j}, Body: body}))
			t.assumptions["sync.Pool(compressorHCPool) returns objects satisfying the CompressorHC representation invariant"] = true
		}
		id := t.eng.typeID(pt)
		b := t.newTemp("poolbox", t.boxPtr(o, id))
		t.cur.Assume(Eq(mk("dyntype", SInt, b), IntLit(id)))
		return []sval{{e: b, typ: ifaceT}}
	case "lz4block.BlockPool64K", "lz4block.BlockPool256K", "lz4block.BlockPool1M", "lz4block.BlockPool4M", "lz4block.BlockPool8M":
		size := map[string]int64{"lz4block.BlockPool64K": 1 << 16, "lz4block.BlockPool256K": 1 << 18, "lz4block.BlockPool1M": 1 << 20, "lz4block.BlockPool4M": 1 << 22, "lz4block.BlockPool8M": 1 << 23}[name]
		base := t.newTemp("poolbuf", th.AAdd(t.allocTop(), th.AddrLit(4096)))
		t.cur.Assign(t.allocTop(), th.AAdd(base, th.AddrLit(size+1)))
		t.cur.Assume(th.ALt(t.allocTop(), th.AddrLit(addrLimit)))
		sl := th.MkSlice(base, th.AddrLit(size), th.AddrLit(size))
		bt := types.NewSlice(types.Typ[types.Uint8])
		id := t.eng.typeID(bt)
		b := t.havocTemp("poolbox", th.Addr(), ifaceT)
		t.cur.Assume(Not(Eq(b, th.AddrLit(0))))
		t.cur.Assume(Eq(mk("dyntype", SInt, b), IntLit(id)))
		t.cur.Assume(Eq(mk("boxed-slice", th.SliceSort(), b), sl))
		return []sval{{e: b, typ: ifaceT}}
	}
	fail("sync.Pool.Get on unknown pool %s", name)
	return nil
}

// ---------------------------------------------------------------------
// Error values. An error is an Int id: 0 is nil; package-level error variables of the
// standard library are fixed small constants; lz4errors constants are interned strings
// (>= 1000); errors built at run time are fresh ids with errInner recording what %w wraps.

var knownErrorGlobals = map[string]int64{
	"io.EOF":              901,
	"io.ErrUnexpectedEOF": 902,
	"io.ErrShortWrite":    903,
	"io.ErrShortBuffer":   904,
	"io.ErrNoProgress":    905,
	"io.ErrClosedPipe":    906,
}

// ghost state of io.Reader / io.Writer values (keyed by the interface value id)
func (t *fnTrans) ghost(name string, elem Sort) *Cell {
	return t.global("H_$"+name, ArrayOf(t.th.Addr(), elem))
}
func (t *fnTrans) rdPos() *Cell  { return t.ghost("rdPos", SInt) }
func (t *fnTrans) rdLen() *Cell  { return t.ghost("rdLen", SInt) }
func (t *fnTrans) rdErr() *Cell  { return t.ghost("rdErr", SInt) }
func (t *fnTrans) rdData() *Cell { return t.ghost("rdData", ArrayOf(SInt, SInt)) }
func (t *fnTrans) wrLen() *Cell  { return t.ghost("wrLen", SInt) }
func (t *fnTrans) wrData() *Cell { return t.ghost("wrData", ArrayOf(SInt, SInt)) }
func (t *fnTrans) wrFail() *Cell { return t.ghost("wrFail", SInt) } // 0: healthy, else the error it reported

func (t *fnTrans) newError(inner Expr) Expr {
	r := t.havocTemp("err", SInt, nil)
	t.cur.Assume(And(IGt(r, IntLit(1<<20)), ILt(r, IntLit(1<<40)), Eq(mk("errInner", SInt, r), inner)))
	return r
}

func errorT() types.Type { return types.Universe.Lookup("error").Type() }

func init() {
	intT := types.Typ[types.Int]
	// io.ReadFull(r, buf): a reader is a fixed byte sequence of length rdLen followed by
	// a terminal error rdErr (io.EOF for a clean end). Fragmentation is abstracted away:
	// the library reaches its source only through ReadFull / CopyN.
	trustedCalls["io.ReadFull"] = func(f *frame, c *ssa.CallCommon, args []sval) []sval {
		t := f.t
		th := t.th
		if th.bv {
			fail("io.ReadFull in bv theory")
		}
		r, buf := args[0].e, args[1].e
		f.check(Not(Eq(r, IntLit(0))), "nil-reader")
		mem := t.mem(types.Typ[types.Uint8])
		pos := t.newTemp("rpos", Select(t.rdPos(), r))
		total := Select(t.rdLen(), r)
		t.cur.Assume(And(ILe(IntLit(0), pos), ILe(pos, total), Not(Eq(Select(t.rdErr(), r), IntLit(0)))))
		avail := t.newTemp("avail", ISub(total, pos))
		want := th.SLen(buf)
		n := t.newTemp("rn", Ite(ILe(want, avail), want, avail))
		bp := t.newTemp("rbuf", th.SPtr(buf))
		t.checkWrite(mem, bp, IAdd(bp, n), "io.ReadFull")
		t.checkModField(t.rdPos(), r)
		data := Select(t.rdData(), r)
		t.memUpdate(mem, bp, IAdd(bp, n), func(old, a Expr) Expr {
			return Select(data, IAdd(pos, ISub(a, bp)))
		})
		t.cur.Assign(t.rdPos(), Store(t.rdPos(), r, IAdd(pos, n)))
		eof := IntLit(knownErrorGlobals["io.EOF"])
		uneof := IntLit(knownErrorGlobals["io.ErrUnexpectedEOF"])
		terr := Select(t.rdErr(), r)
		err := t.newTemp("rerr", Ite(ILe(want, avail), IntLit(0),
			Ite(Eq(avail, IntLit(0)), terr, Ite(Eq(terr, eof), uneof, terr))))
		return []sval{{e: n, typ: intT}, {e: err, typ: errorT()}}
	}
	trustedCalls["io.CopyN"] = func(f *frame, c *ssa.CallCommon, args []sval) []sval {
		t := f.t
		if t.th.bv {
			fail("io.CopyN in bv theory")
		}
		// only CopyN(ioutil.Discard, src, n) occurs: the destination accepts everything
		if g, ok := c.Args[0].(*ssa.UnOp); !ok || !strings.Contains(g.X.String(), "Discard") {
			fail("io.CopyN to a destination other than ioutil.Discard")
		}
		r, n := args[1].e, args[2].e
		f.check(Not(Eq(r, IntLit(0))), "nil-reader")
		pos := t.newTemp("rpos", Select(t.rdPos(), r))
		total := Select(t.rdLen(), r)
		t.cur.Assume(And(ILe(IntLit(0), pos), ILe(pos, total), Not(Eq(Select(t.rdErr(), r), IntLit(0)))))
		avail := t.newTemp("avail", ISub(total, pos))
		got := t.newTemp("cn", Ite(ILe(n, IntLit(0)), IntLit(0), Ite(ILe(n, avail), n, avail)))
		t.checkModField(t.rdPos(), r)
		t.cur.Assign(t.rdPos(), Store(t.rdPos(), r, IAdd(pos, got)))
		err := t.newTemp("cerr", Ite(Or(ILe(n, IntLit(0)), ILe(n, avail)), IntLit(0), Select(t.rdErr(), r)))
		return []sval{{e: got, typ: types.Typ[types.Int64]}, {e: err, typ: errorT()}}
	}
	// io.Reader.Read(p) on the abstract source (its bytes rdData[0:rdLen), then rdErr for ever): the
	// next n bytes, 0 <= n <= min(len(p), available); with bytes available and room in p it makes
	// progress; the source's error comes with the last bytes or after them, never before.
	invokeContracts["io.Reader.Read"] = func(f *frame, c *ssa.CallCommon, args []sval) []sval {
		t := f.t
		th := t.th
		if th.bv {
			fail("io.Reader.Read in bv theory")
		}
		r, buf := args[0].e, args[1].e
		f.check(Not(Eq(r, IntLit(0))), "nil-reader")
		mem := t.mem(types.Typ[types.Uint8])
		pos := t.newTemp("rpos", Select(t.rdPos(), r))
		total := Select(t.rdLen(), r)
		terr := Select(t.rdErr(), r)
		t.cur.Assume(And(ILe(IntLit(0), pos), ILe(pos, total), Not(Eq(terr, IntLit(0)))))
		avail := t.newTemp("avail", ISub(total, pos))
		want := th.SLen(buf)
		n := t.havocTemp("rn", SInt, intT)
		t.cur.Assume(And(ILe(IntLit(0), n), ILe(n, want), ILe(n, avail),
			Implies(And(IGt(avail, IntLit(0)), IGt(want, IntLit(0))), IGe(n, IntLit(1)))))
		bp := t.newTemp("rbuf", th.SPtr(buf))
		t.checkWrite(mem, bp, IAdd(bp, n), "io.Reader.Read")
		t.checkModField(t.rdPos(), r)
		data := Select(t.rdData(), r)
		t.memUpdate(mem, bp, IAdd(bp, n), func(old, a Expr) Expr {
			return Select(data, IAdd(pos, ISub(a, bp)))
		})
		t.cur.Assign(t.rdPos(), Store(t.rdPos(), r, IAdd(pos, n)))
		e := t.havocTemp("rerr", th.Addr(), errorT())
		// nil, or the source's error once everything has been handed over
		t.cur.Assume(Or(Eq(e, IntLit(0)), And(Eq(n, avail), Eq(e, terr))))
		// at the end of the source the error is reported (a Read that returns 0, nil for ever is excluded)
		t.cur.Assume(Implies(And(Eq(avail, IntLit(0)), IGt(want, IntLit(0))), Eq(e, terr)))
		return []sval{{e: n, typ: intT}, {e: e, typ: errorT()}}
	}
	// io.Writer.Write(p): appends all of p and returns (len(p), nil), or appends a strict
	// prefix and returns a non-nil error. Any call may fail.
	invokeContracts["io.Writer.Write"] = func(f *frame, c *ssa.CallCommon, args []sval) []sval {
		t := f.t
		th := t.th
		w, p := args[0].e, args[1].e
		f.check(Not(Eq(w, IntLit(0))), "nil-writer")
		mem := t.mem(types.Typ[types.Uint8])
		plen := th.SLen(p)
		pp := t.newTemp("wp", th.SPtr(p))
		ok := t.havocTemp("wok", SBool, nil)
		n := t.havocTemp("wn", SInt, intT)
		t.cur.Assume(And(ILe(IntLit(0), n), ILe(n, plen), Implies(ok, Eq(n, plen))))
		werr := t.newError(IntLit(0))
		t.cur.Assume(Not(Eq(werr, IntLit(knownErrorGlobals["io.EOF"]))))
		err := t.newTemp("werr", Ite(ok, IntLit(0), werr))
		olen := t.newTemp("olen", Select(t.wrLen(), w))
		t.cur.Assume(ILe(IntLit(0), olen))
		t.checkModField(t.wrLen(), w)
		oldData := t.newTemp("odata", Select(t.wrData(), w))
		nd := t.havocTemp("ndata", ArrayOf(SInt, SInt), nil)
		k := &Var{"k!w", SInt}
		in := And(ILe(olen, k), ILt(k, IAdd(olen, n)))
		t.cur.Assume(&Quant{Forall: true, Vars: []*Var{k}, Body: Eq(Select(nd, k), Ite(in, Select(mem, IAdd(pp, ISub(k, olen))), Select(oldData, k))), Pats: [][]Expr{{Select(nd, k)}}})
		t.cur.Assign(t.wrData(), Store(t.wrData(), w, nd))
		t.cur.Assign(t.wrLen(), Store(t.wrLen(), w, IAdd(olen, n)))
		t.cur.Assign(t.wrFail(), Store(t.wrFail(), w, Ite(ok, Select(t.wrFail(), w), err)))
		return []sval{{e: n, typ: intT}, {e: err, typ: errorT()}}
	}
	invokeContracts["io.ReadCloser.Close"] = func(f *frame, c *ssa.CallCommon, args []sval) []sval {
		t := f.t
		e := t.havocTemp("closeerr", SInt, errorT())
		return []sval{{e: e, typ: errorT()}}
	}
	invokeContracts["error.Error"] = func(f *frame, c *ssa.CallCommon, args []sval) []sval {
		t := f.t
		f.check(Not(Eq(args[0].e, IntLit(0))), "nil-error")
		return []sval{{e: t.havocTemp("errstr", t.th.Addr(), nil), typ: types.Typ[types.String]}}
	}
	// reflect.TypeOf(x).String(): only used to print an option's name; pure, some non-nil type, some string
	trustedCalls["reflect.TypeOf"] = func(f *frame, c *ssa.CallCommon, args []sval) []sval {
		t := f.t
		e := t.havocTemp("rtype", t.th.Addr(), nil)
		t.cur.Assume(Not(Eq(e, t.th.AddrLit(0))))
		return []sval{{e: e, typ: c.Value.Type().(*types.Signature).Results().At(0).Type()}}
	}
	invokeContracts["reflect.Type.String"] = func(f *frame, c *ssa.CallCommon, args []sval) []sval {
		t := f.t
		f.check(Not(Eq(args[0].e, t.th.AddrLit(0))), "nil-type")
		return []sval{{e: t.havocTemp("str", t.th.Addr(), nil), typ: types.Typ[types.String]}}
	}
	trustedCalls["errors.Is"] = func(f *frame, c *ssa.CallCommon, args []sval) []sval {
		return []sval{{e: mk("errIs", SBool, args[0].e, args[1].e), typ: types.Typ[types.Bool]}}
	}
	trustedCalls["errors.New"] = func(f *frame, c *ssa.CallCommon, args []sval) []sval {
		return []sval{{e: f.t.newError(IntLit(0)), typ: errorT()}}
	}
	trustedCalls["fmt.Sprintf"] = func(f *frame, c *ssa.CallCommon, args []sval) []sval {
		t := f.t
		return []sval{{e: t.havocTemp("str", t.th.Addr(), nil), typ: types.Typ[types.String]}}
	}
	trustedCalls["fmt.Errorf"] = func(f *frame, c *ssa.CallCommon, args []sval) []sval {
		t := f.t
		th := t.th
		// which operand does %w wrap?
		var inner Expr = IntLit(0)
		if k, ok := c.Args[0].(*ssa.Const); ok && k.Value != nil && k.Value.Kind() == constant.String {
			format := constant.StringVal(k.Value)
			idx := -1
			verb := 0
			for i := 0; i < len(format); i++ {
				if format[i] != '%' {
					continue
				}
				if i+1 < len(format) && format[i+1] == '%' {
					i++
					continue
				}
				j := i + 1
				for j < len(format) && strings.ContainsRune("+-# 0123456789.", rune(format[j])) {
					j++
				}
				if j < len(format) && format[j] == 'w' {
					idx = verb
				}
				verb++
				i = j
			}
			if idx >= 0 {
				ifaceT := types.NewInterfaceType(nil, nil)
				mem := t.mem(ifaceT)
				inner = t.newTemp("wrapped", Select(mem, th.AAdd(th.SPtr(args[1].e), th.AddrLit(int64(idx)))))
			}
		} else {
			fail("fmt.Errorf with a non-constant format")
		}
		return []sval{{e: t.newError(inner), typ: errorT()}}
	}
	trustedCalls["(reflect.Type).String"] = nil
	delete(trustedCalls, "(reflect.Type).String")
	trustedCalls["bytes.NewReader"] = func(f *frame, c *ssa.CallCommon, args []sval) []sval {
		t := f.t
		th := t.th
		// a fresh reader over the bytes of the argument, ending in a clean io.EOF
		o := t.newTemp("brd", t.objTop())
		t.cur.Assign(t.objTop(), th.AAdd(t.objTop(), th.AddrLit(1)))
		t.cur.Assume(th.ALt(t.objTop(), th.AddrLit(1<<16)))
		mem := t.mem(types.Typ[types.Uint8])
		b := args[0].e
		data := t.havocTemp("brdata", ArrayOf(SInt, SInt), nil)
		k := &Var{"k!b", SInt}
		t.cur.Assume(&Quant{Forall: true, Vars: []*Var{k}, Body: Implies(And(ILe(IntLit(0), k), ILt(k, th.SLen(b))), Eq(Select(data, k), Select(mem, IAdd(th.SPtr(b), k)))), Pats: [][]Expr{{Select(data, k)}}})
		// the ghost stream is keyed by the io.Reader interface value this pointer converts to
		key := t.boxPtr(o, t.eng.typeID(c.Signature().Results().At(0).Type()))
		t.cur.Assign(t.rdData(), Store(t.rdData(), key, data))
		t.cur.Assign(t.rdLen(), Store(t.rdLen(), key, th.SLen(b)))
		t.cur.Assign(t.rdPos(), Store(t.rdPos(), key, IntLit(0)))
		t.cur.Assign(t.rdErr(), Store(t.rdErr(), key, IntLit(knownErrorGlobals["io.EOF"])))
		return []sval{{e: o, typ: c.Signature().Results().At(0).Type()}}
	}
}

func init() {
	// sequential code: lock operations have no effect on the modelled state;
	// in a goroutine fragment acquiring a lock is an interference point
	lock := func(f *frame, c *ssa.CallCommon, args []sval) []sval {
		if f.t.fc.Concurrent {
			f.interfere()
		}
		return nil
	}
	noop := func(f *frame, c *ssa.CallCommon, args []sval) []sval { return nil }
	trustedCalls["(*sync.Mutex).Lock"] = lock
	trustedCalls["(*sync.Mutex).Unlock"] = noop
}

// ---------------------------------------------------------------------
// function-typed values

func init() {
	// on-block-done callbacks: user code; assumed not to touch the library's state
	dynamicContracts["func(int)"] = func(f *frame, c *ssa.CallCommon, args []sval) []sval {
		f.check(Not(Eq(args[0].e, f.t.th.AddrLit(0))), "nil-func")
		return nil
	}
	// Option values: function-type contract "applied to a *Writer / *Reader / *CompressingReader it
	// changes only option fields, never the lifecycle state, buffers, sink or source" (each of
	// the constructors' closures in options.go is verified against it, see their contracts).
	dynamicContracts["lz4.Option"] = func(f *frame, c *ssa.CallCommon, args []sval) []sval {
		t := f.t
		th := t.th
		f.check(Not(Eq(args[0].e, th.AddrLit(0))), "nil-func")
		mi, ok := c.Args[0].(*ssa.MakeInterface)
		if !ok {
			fail("Option applied to a non-literal applier")
		}
		recv := f.val(mi.X).e
		n, st := namedStruct(mi.X.Type())
		if n == nil {
			fail("Option applied to %s", mi.X.Type())
		}
		havocField := func(obj Expr, sn *types.Named, name string, constrain func(old, nv Expr) Expr) {
			sst := sn.Underlying().(*types.Struct)
			for i := 0; i < sst.NumFields(); i++ {
				if sst.Field(i).Name() != name {
					continue
				}
				h := t.heap(sn, i)
				t.checkModField(h, obj)
				old := t.newTemp("optold", Select(h, obj))
				_, es := h.S.ArrayParts()
				nv := t.havocTemp("opt", es, sst.Field(i).Type())
				if constrain != nil {
					t.cur.Assume(constrain(old, nv))
				}
				t.cur.Assign(h, Store(h, obj, nv))
				return
			}
		}
		frameFlags := func(framePtr Expr) {
			// *lz4stream.Frame: Descriptor.Flags (checksum/size flags and a valid block size code), Descriptor.ContentSize
			fr := t.eng.findPackage("lz4stream").Scope().Lookup("Frame").Type().(*types.Named)
			fst := fr.Underlying().(*types.Struct)
			for i := 0; i < fst.NumFields(); i++ {
				if fst.Field(i).Name() == "Descriptor" {
					dn := fst.Field(i).Type().(*types.Named)
					d := t.embObj(framePtr, fr, i)
					havocField(d, dn, "Flags", func(old, nv Expr) Expr {
						keep := func(x Expr) Expr { // bits other than 2,3,4 and 12..14
							lo := mk("mod", SInt, x, IntLit(4))
							mid := mk("mod", SInt, mk("div", SInt, x, IntLit(32)), IntLit(128))
							hi := mk("div", SInt, x, IntLit(32768))
							return IAdd(IAdd(lo, IMul(mid, IntLit(32))), IMul(hi, IntLit(32768)))
						}
						idx := mk("mod", SInt, mk("div", SInt, nv, IntLit(4096)), IntLit(8))
						oidx := mk("mod", SInt, mk("div", SInt, old, IntLit(4096)), IntLit(8))
						return And(Eq(keep(old), keep(nv)), Or(Eq(idx, oidx), And(ILe(IntLit(4), idx), ILe(idx, IntLit(7)))))
					})
					havocField(d, dn, "ContentSize", nil)
				}
			}
		}
		nonNil := func(old, nv Expr) Expr { return Not(Eq(nv, th.AddrLit(0))) }
		switch n.Obj().Name() {
		case "Writer":
			havocField(recv, n, "level", nil)
			havocField(recv, n, "num", func(old, nv Expr) Expr { return IGt(nv, IntLit(0)) })
			havocField(recv, n, "handler", nonNil)
			var legOld, legNew, flOld, flNew Expr
			havocField(recv, n, "legacy", func(old, nv Expr) Expr { legOld, legNew = old, nv; return True })
			for i := 0; i < st.NumFields(); i++ {
				if st.Field(i).Name() == "frame" {
					fp := Select(t.heap(n, i), recv)
					fr := t.eng.findPackage("lz4stream").Scope().Lookup("Frame").Type().(*types.Named)
					fst := fr.Underlying().(*types.Struct)
					var fh *Cell
					var dobj Expr
					for k := 0; k < fst.NumFields(); k++ {
						if fst.Field(k).Name() == "Descriptor" {
							dn := fst.Field(k).Type().(*types.Named)
							dst := dn.Underlying().(*types.Struct)
							for m := 0; m < dst.NumFields(); m++ {
								if dst.Field(m).Name() == "Flags" {
									fh = t.heap(dn, m)
									dobj = t.embObj(fp, fr, k)
								}
							}
						}
					}
					if fh != nil {
						flOld = t.newTemp("optflold", Select(fh, dobj))
					}
					frameFlags(fp)
					if fh != nil {
						flNew = Select(fh, dobj)
					}
				}
			}
			if legOld != nil && flOld != nil {
				// an option leaves the Writer with a block size code that the format it now writes has
				// (8 MiB, code 3, exists in the legacy format only), or changes neither the format nor the code
				idx := func(x Expr) Expr { return mk("mod", SInt, mk("div", SInt, x, IntLit(4096)), IntLit(8)) }
				t.cur.Assume(Or(legNew, And(ILe(IntLit(4), idx(flNew)), ILe(idx(flNew), IntLit(7))), And(Eq(legNew, legOld), Eq(idx(flNew), idx(flOld)))))
			}
		case "Reader":
			havocField(recv, n, "num", func(old, nv Expr) Expr { return IGt(nv, IntLit(0)) })
			havocField(recv, n, "handler", nonNil)
		case "CompressingReader":
			havocField(recv, n, "level", nil)
			havocField(recv, n, "handler", nonNil)
			for i := 0; i < st.NumFields(); i++ {
				if st.Field(i).Name() == "frame" {
					frameFlags(Select(t.heap(n, i), recv))
				}
			}
		default:
			fail("Option applied to %s", n.Obj().Name())
		}
		e := t.havocTemp("opterr", th.Addr(), errorT())
		return []sval{{e: e, typ: errorT()}}
	}
}
