package main

// Trusted contracts of standard-library functions, interface methods and
// function-typed values. Every use is recorded in the evidence as an assumption.

import (
	"go/types"
	"math/big"

	"golang.org/x/tools/go/ssa"
)

type callHandler func(f *frame, c *ssa.CallCommon, args []sval) []sval

var trustedCalls = map[string]callHandler{}
var invokeContracts = map[string]callHandler{}
var dynamicContracts = map[string]callHandler{}

func init() {
	u16, u32, u64 := types.Typ[types.Uint16], types.Typ[types.Uint32], types.Typ[types.Uint64]
	leGet := func(n int, rt types.Type) callHandler {
		return func(f *frame, c *ssa.CallCommon, args []sval) []sval {
			t := f.t
			th := t.th
			b := args[len(args)-1] // receiver littleEndian is args[0]
			f.check(th.ALe(th.AddrLit(int64(n)), th.SLen(b.e)), "binary-le-short")
			mem := t.mem(types.Typ[types.Uint8])
			p := t.newTemp("lep", th.SPtr(b.e))
			if !th.bv {
				// bytes are in range
				for i := 0; i < n; i++ {
					by := Select(mem, th.AAdd(p, th.AddrLit(int64(i))))
					t.cur.Assume(And(ILe(IntLit(0), by), ILt(by, IntLit(256))))
				}
			}
			v := t.newTemp("le", f.leLoad(mem, p, n))
			return []sval{{e: v, typ: rt}}
		}
	}
	lePut := func(n int) callHandler {
		return func(f *frame, c *ssa.CallCommon, args []sval) []sval {
			t := f.t
			th := t.th
			b, v := args[len(args)-2], args[len(args)-1]
			f.check(th.ALe(th.AddrLit(int64(n)), th.SLen(b.e)), "binary-le-short")
			mem := t.mem(types.Typ[types.Uint8])
			p := t.newTemp("lep", th.SPtr(b.e))
			t.checkWrite(mem, p, th.AAdd(p, th.AddrLit(int64(n))), "binary-put")
			var e Expr = mem
			for i := 0; i < n; i++ {
				var by Expr
				if th.bv {
					by = mk("(_ extract "+itoa(8*i+7)+" "+itoa(8*i)+")", BV(8), v.e)
				} else {
					by = mk("mod", SInt, mk("div", SInt, v.e, BigLit(pow2(8*i))), IntLit(256))
				}
				e = Store(e, th.AAdd(p, th.AddrLit(int64(i))), by)
			}
			t.cur.Assign(mem, e)
			return nil
		}
	}
	trustedCalls["(encoding/binary.littleEndian).Uint16"] = leGet(2, u16)
	trustedCalls["(encoding/binary.littleEndian).Uint32"] = leGet(4, u32)
	trustedCalls["(encoding/binary.littleEndian).Uint64"] = leGet(8, u64)
	trustedCalls["(encoding/binary.littleEndian).PutUint16"] = lePut(2)
	trustedCalls["(encoding/binary.littleEndian).PutUint32"] = lePut(4)
	trustedCalls["(encoding/binary.littleEndian).PutUint64"] = lePut(8)

	trustedCalls["math/bits.TrailingZeros64"] = func(f *frame, c *ssa.CallCommon, args []sval) []sval {
		t := f.t
		th := t.th
		intT := types.Typ[types.Int]
		x := args[0].e
		if th.bv {
			// exact: ite chain over the lowest set bit
			var e Expr = BVLit64(64, 64)
			for i := 63; i >= 0; i-- {
				bit := mk("(_ extract "+itoa(i)+" "+itoa(i)+")", BV(1), x)
				e = Ite(Eq(bit, BVLit64(1, 1)), BVLit64(uint64(i), 64), e)
			}
			return []sval{{e: t.newTemp("tz", e), typ: intT}}
		}
		r := t.havocTemp("tz", SInt, intT)
		t.cur.Assume(And(ILe(IntLit(0), r), ILe(r, IntLit(64)), Eq(Eq(r, IntLit(64)), Eq(x, IntLit(0)))))
		// x is a multiple of 2^r and not of 2^(r+1): stated for the byte granularity the code uses
		return []sval{{e: r, typ: intT}}
	}

	trustedCalls["(*sync.Pool).Get"] = poolGet
	trustedCalls["(*sync.Pool).Put"] = func(f *frame, c *ssa.CallCommon, args []sval) []sval { return nil }
	trustedCalls["runtime.GOMAXPROCS"] = func(f *frame, c *ssa.CallCommon, args []sval) []sval {
		t := f.t
		r := t.havocTemp("gomaxprocs", t.th.SortOf(types.Typ[types.Int]), types.Typ[types.Int])
		t.cur.Assume(t.th.SLt(t.th.IntConst(big.NewInt(0), types.Typ[types.Int]), r))
		return []sval{{e: r, typ: types.Typ[types.Int]}}
	}
}

func itoa(i int) string { return big.NewInt(int64(i)).String() }

// poolGet: sync.Pool.Get on one of the package pools returns a value of the
// pool's element type with arbitrary contents (fresh allocation or recycled).
func poolGet(f *frame, c *ssa.CallCommon, args []sval) []sval {
	t := f.t
	th := t.th
	g, ok := c.Args[0].(*ssa.Global)
	if !ok {
		fail("sync.Pool.Get on a non-global pool")
	}
	ifaceT := c.Signature().Results().At(0).Type()
	name := g.Pkg.Pkg.Name() + "." + g.Name()
	switch name {
	case "lz4block.compressorPool", "lz4block.compressorHCPool":
		tn := "Compressor"
		if name == "lz4block.compressorHCPool" {
			tn = "CompressorHC"
		}
		obj := g.Pkg.Pkg.Scope().Lookup(tn)
		pt := types.NewPointer(obj.Type())
		// a fresh object id whose fields/arrays are unconstrained (recycled contents)
		o := t.newTemp("poolobj", t.objTop())
		t.cur.Assign(t.objTop(), th.AAdd(t.objTop(), th.AddrLit(1)))
		t.cur.Assume(th.ALt(t.objTop(), th.AddrLit(1<<16)))
		if tn == "CompressorHC" {
			// representation invariant of pooled objects: either fresh from New (all zero)
			// or previously used and Put back (needsReset == true)
			n, st := namedStruct(obj.Type())
			var nr, ht, ct int
			for i := 0; i < st.NumFields(); i++ {
				switch st.Field(i).Name() {
				case "needsReset":
					nr = i
				case "hashTable":
					ht = i
				case "chainTable":
					ct = i
				}
			}
			mem := t.mem(types.Typ[types.Int])
			j := &Var{"j!p", th.Addr()}
			in := And(th.ALe(th.AddrLit(0), j), th.ALt(j, th.AddrLit(65536)))
			zero := th.Zero(types.Typ[types.Int])
			body := Implies(in, And(Eq(Select(mem, th.AAdd(t.embArr(o, n, ht), j)), zero), Eq(Select(mem, th.AAdd(t.embArr(o, n, ct), j)), zero)))
			t.cur.Assume(Implies(Not(Select(t.heap(n, nr), o)), &Quant{Forall: true, Vars: []*Var{j}, Body: body}))
			t.assumptions["sync.Pool(compressorHCPool) returns objects satisfying the CompressorHC representation invariant"] = true
		}
		id := t.eng.typeID(pt)
		b := t.newTemp("poolbox", t.boxPtr(o, id))
		t.cur.Assume(Eq(mk("dyntype", SInt, b), IntLit(id)))
		return []sval{{e: b, typ: ifaceT}}
	case "lz4block.BlockPool64K", "lz4block.BlockPool256K", "lz4block.BlockPool1M", "lz4block.BlockPool4M", "lz4block.BlockPool8M":
		size := map[string]int64{"lz4block.BlockPool64K": 1 << 16, "lz4block.BlockPool256K": 1 << 18, "lz4block.BlockPool1M": 1 << 20, "lz4block.BlockPool4M": 1 << 22, "lz4block.BlockPool8M": 1 << 23}[name]
		base := t.newTemp("poolbuf", th.AAdd(t.allocTop(), th.AddrLit(4096)))
		t.cur.Assign(t.allocTop(), th.AAdd(base, th.AddrLit(size+1)))
		t.cur.Assume(th.ALt(t.allocTop(), th.AddrLit(addrLimit)))
		sl := th.MkSlice(base, th.AddrLit(size), th.AddrLit(size))
		bt := types.NewSlice(types.Typ[types.Uint8])
		id := t.eng.typeID(bt)
		b := t.havocTemp("poolbox", th.Addr(), ifaceT)
		t.cur.Assume(Not(Eq(b, th.AddrLit(0))))
		t.cur.Assume(Eq(mk("dyntype", SInt, b), IntLit(id)))
		t.cur.Assume(Eq(mk("boxed-slice", th.SliceSort(), b), sl))
		return []sval{{e: b, typ: ifaceT}}
	}
	fail("sync.Pool.Get on unknown pool %s", name)
	return nil
}
