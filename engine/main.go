package main

import (
	"encoding/json"
	"flag"
	"fmt"
	"os"
	"path/filepath"
	"runtime"
	"sort"
	"strconv"
	"strings"
	"time"
)

// repoDir: the tree under verification. LZ4VERIF_REPO points the engine at a scratch copy during
// development (the registered commands never set it).
var repoDir = func() string {
	if d := os.Getenv("LZ4VERIF_REPO"); d != "" {
		return d
	}
	return "/repo"
}()

func verifDir() string {
	if d := os.Getenv("LZ4VERIF_HOME"); d != "" {
		return d
	}
	exe, err := os.Executable()
	if err == nil {
		d := filepath.Dir(filepath.Dir(exe))
		if _, err := os.Stat(filepath.Join(d, "spec")); err == nil {
			return d
		}
	}
	return "/verif"
}

func main() {
	if len(os.Args) < 2 {
		fmt.Fprintln(os.Stderr, "usage: lz4verif check|func|dump|list ...")
		os.Exit(2)
	}
	switch os.Args[1] {
	case "check":
		os.Exit(cmdCheck(os.Args[2:]))
	case "func":
		os.Exit(cmdFunc(os.Args[2:]))
	case "list":
		os.Exit(cmdList(os.Args[2:]))
	case "bounded":
		os.Exit(cmdBounded(os.Args[2:]))
	case "locals":
		// print, for every function under contract, its declared names in source order
		e, err := NewEngine(repoDir, verifDir(), "verif,noasm")
		if err != nil {
			fmt.Println("ENGINE-ERROR:", err)
			os.Exit(2)
		}
		var keys []string
		for k := range e.contracts {
			keys = append(keys, k)
		}
		sort.Strings(keys)
		for _, k := range keys {
			if fn := e.funcs[k]; fn != nil {
				fmt.Printf("%s\t%s\n", k, strings.Join(declaredNames(fn), " "))
			}
		}
		os.Exit(0)
	default:
		fmt.Fprintln(os.Stderr, "unknown command", os.Args[1])
		os.Exit(2)
	}
}

func envInt(name string, def int) int {
	if v := os.Getenv(name); v != "" {
		if n, err := strconv.Atoi(v); err == nil {
			return n
		}
	}
	return def
}

func scratchDir() string {
	base := os.Getenv("TMPDIR")
	if base == "" {
		base = "/tmp"
	}
	d, err := os.MkdirTemp(base, "lz4verif-")
	if err != nil {
		panic(err)
	}
	return d
}

func cmdList(args []string) int {
	e, err := NewEngine(repoDir, verifDir(), "verif,noasm")
	if err != nil {
		fmt.Fprintln(os.Stderr, "engine error:", err)
		return 2
	}
	var keys []string
	for k := range e.contracts {
		keys = append(keys, k)
	}
	sort.Strings(keys)
	for _, k := range keys {
		fc := e.contracts[k]
		fmt.Printf("%-50s theory=%s props=%v inline=%v trusted=%v\n", k, fc.Theory, fc.Props, fc.Inline, fc.Trusted)
	}
	return 0
}

// cmdFunc: verify single functions (debugging aid): lz4verif func [-v] [-dump dir] key...
func cmdFunc(args []string) int {
	fs := flag.NewFlagSet("func", flag.ExitOnError)
	verbose := fs.Bool("v", false, "print every obligation")
	dump := fs.String("dump", "", "write queries of failed obligations to this directory")
	timeout := fs.Int("timeout", 10, "solver timeout (s)")
	only := fs.String("only", "", "substring filter on obligation names")
	fs.Parse(args)
	e, err := NewEngine(repoDir, verifDir(), "verif,noasm")
	if err != nil {
		fmt.Fprintln(os.Stderr, "engine error:", err)
		return 2
	}
	keys := fs.Args()
	if len(keys) == 1 && keys[0] == "all" {
		keys = nil
		for k, fc := range e.contracts {
			if !fc.Inline && !fc.Trusted {
				keys = append(keys, k)
			}
		}
		sort.Strings(keys)
	}
	scratch := scratchDir()
	defer os.RemoveAll(scratch)
	rc := 0
	for _, key := range keys {
		if key == "asm" {
			t0 := time.Now()
			fc := asmContractFor(e)
			if fc == nil {
				fmt.Println("asm: no contract")
				rc = 1
				continue
			}
			obls, n, err := asmTranslate(e, fc, scratch)
			if err != nil {
				fmt.Println("asm: UNDECIDED:", err)
				rc = 1
				continue
			}
			if *only != "" {
				var fl []*Obligation
				for _, o := range obls {
					if strings.Contains(o.Name, *only) {
						fl = append(fl, o)
					}
				}
				obls = fl
			}
			cfg := solveCfg{timeoutS: *timeout, firstS: 3, seed: envInt("VERIF_SEED", 0), workers: runtime.NumCPU(), scratch: scratch, models: true}
			solveAll(obls, cfg)
			ok, bad, cs, ca := 0, 0, 0, 0
			for _, o := range obls {
				if o.ExpectSat {
					ca++
					if o.Status == "sat" {
						cs++
					}
					continue
				}
				if o.Status == "unsat" {
					ok++
				} else {
					bad++
				}
				if *verbose || o.Status != "unsat" {
					fmt.Printf("  %-8s %-7s %5.2fs %s %s\n", o.Status, o.Solver, o.TimeS, o.Name, o.Meta["pos"])
					if o.Status != "unsat" && *dump != "" {
						os.MkdirAll(*dump, 0o755)
						os.WriteFile(filepath.Join(*dump, sanitize(o.Name)+".smt2"), []byte(o.Query(true)), 0o644)
						os.WriteFile(filepath.Join(*dump, sanitize(o.Name)+".out"), []byte(o.Output), 0o644)
					}
				}
			}
			fmt.Printf("asm.decodeBlock: %d instructions, %d obligations, %d discharged, %d failed; canaries %d/%d; %.1fs\n", n, ok+bad, ok, bad, cs, ca, time.Since(t0).Seconds())
			if bad > 0 {
				rc = 1
			}
			continue
		}
		if e.contracts[key] == nil {
			fmt.Printf("%s: no contract\n", key)
			rc = 1
			continue
		}
		t0 := time.Now()
		res := e.TranslateFunc(key)
		if res.Err != "" {
			fmt.Printf("%s: UNDECIDED: %s\n", key, res.Err)
			rc = 1
			continue
		}
		obls := res.Obls
		if *only != "" {
			var fl []*Obligation
			for _, o := range obls {
				if strings.Contains(o.Name, *only) {
					fl = append(fl, o)
				}
			}
			obls = fl
		}
		cfg := solveCfg{timeoutS: *timeout, firstS: 3, seed: envInt("VERIF_SEED", 0), workers: runtime.NumCPU(), scratch: scratch, models: true}
		solveAll(obls, cfg)
		ok, bad, canSat, canAll := 0, 0, 0, 0
		for _, o := range obls {
			if o.ExpectSat {
				canAll++
				if o.Status == "sat" {
					canSat++
				}
				if *verbose {
					fmt.Printf("  %-8s %-7s %5.2fs %s\n", o.Status, o.Solver, o.TimeS, o.Name)
				}
				if o.Status != "sat" && *dump != "" {
					os.MkdirAll(*dump, 0o755)
					os.WriteFile(filepath.Join(*dump, sanitize(o.Name)+".smt2"), []byte(o.Query(true)), 0o644)
				}
				continue
			}
			if o.Status == "unsat" {
				ok++
			} else {
				bad++
			}
			if *verbose || o.Status != "unsat" {
				fmt.Printf("  %-8s %-7s %5.2fs %s %s\n", o.Status, o.Solver, o.TimeS, o.Name, o.Meta["pos"])
			}
			if (o.Status != "unsat" || os.Getenv("LZ4VERIF_DUMPALL") != "") && *dump != "" {
				os.MkdirAll(*dump, 0o755)
				os.WriteFile(filepath.Join(*dump, sanitize(o.Name)+".smt2"), []byte(o.Query(true)), 0o644)
				os.WriteFile(filepath.Join(*dump, sanitize(o.Name)+".out"), []byte(o.Output), 0o644)
			}
		}
		fmt.Printf("%s: %d obligations, %d discharged, %d failed; canaries refuted %d/%d; loops %d; %.1fs\n", key, ok+bad, ok, bad, canSat, canAll, res.Loops, time.Since(t0).Seconds())
		if bad > 0 {
			rc = 1
		}
	}
	return rc
}

// ---------------------------------------------------------------------

type knownFinding struct {
	Property   string
	Obligation string
	Text       string
}

func loadKnownFindings(path string) []knownFinding {
	data, err := os.ReadFile(path)
	if err != nil {
		return nil
	}
	var out []knownFinding
	for _, l := range strings.Split(string(data), "\n") {
		l = strings.TrimSpace(l)
		if !strings.HasPrefix(l, "known:") {
			continue
		}
		var kf knownFinding
		rest := strings.TrimSpace(strings.TrimPrefix(l, "known:"))
		for _, fld := range strings.Fields(rest) {
			if strings.HasPrefix(fld, "property=") {
				kf.Property = strings.TrimPrefix(fld, "property=")
			} else if strings.HasPrefix(fld, "obligation=") {
				kf.Obligation = strings.TrimPrefix(fld, "obligation=")
			}
		}
		if i := strings.Index(rest, " -- "); i >= 0 {
			kf.Text = strings.TrimSpace(rest[i+4:])
		}
		out = append(out, kf)
	}
	return out
}

type evidence struct {
	PropertyID  string                 `json:"property_id"`
	Tier        string                 `json:"tier"`
	Seed        int                    `json:"seed"`
	Level       string                 `json:"level"`
	Coverage    map[string]interface{} `json:"coverage"`
	Assumptions []string               `json:"assumptions"`
	WallS       float64                `json:"wall_s"`
	Violations  int                    `json:"violations"`
}

func hasProp(props []string, p string) bool {
	for _, x := range props {
		if x == p {
			return true
		}
	}
	return false
}

func cmdCheck(args []string) int {
	fs := flag.NewFlagSet("check", flag.ExitOnError)
	prop := fs.String("property", "", "property id")
	tier := fs.String("tier", os.Getenv("VERIF_TIER"), "quick|thorough")
	fs.Parse(args)
	if *tier == "" {
		*tier = "quick"
	}
	if *prop == "" {
		fmt.Fprintln(os.Stderr, "--property required")
		return 2
	}
	_, isBounded := boundedPlans[*prop]
	t0 := time.Now()
	vd := verifDir()
	seed := envInt("VERIF_SEED", 0)
	e, err := NewEngine(repoDir, vd, "verif,noasm")
	if err != nil {
		// the tree does not load: nothing can be decided
		fmt.Println("ENGINE-ERROR:", err)
		return 2
	}
	scratch := scratchDir()
	defer os.RemoveAll(scratch)

	var keys []string
	for k, fc := range e.contracts {
		if hasProp(fc.Props, *prop) && !fc.Inline && !fc.Trusted {
			keys = append(keys, k)
		}
	}
	sort.Strings(keys)
	if isBounded && len(keys) == 0 {
		// no contract carries this property: a bounded stand-in alone (labelled so in the evidence)
		return cmdBounded([]string{"--property", *prop, "--tier", *tier})
	}
	var all []*Obligation
	var results []*funcResult
	assum := map[string]bool{}
	var undecided []string
	for _, k := range keys {
		r := e.TranslateFunc(k)
		results = append(results, r)
		if r.Err != "" {
			undecided = append(undecided, fmt.Sprintf("%s: %s", k, r.Err))
			continue
		}
		for _, a := range r.Assumptions {
			assum[a] = true
		}
		for _, o := range r.Obls {
			if o.ExpectSat || hasProp(o.Props, *prop) {
				all = append(all, o)
			}
		}
	}
	// asm obligations
	asmObls, asmInfo, asmErr := asmObligations(e, *prop, scratch)
	if asmErr != "" {
		undecided = append(undecided, "asm.decodeBlock: "+asmErr)
	}
	all = append(all, asmObls...)

	cfg := solveCfg{timeoutS: 20, firstS: 4, seed: seed, workers: runtime.NumCPU(), scratch: scratch, models: true}
	if *tier == "thorough" {
		cfg.timeoutS = 120
		cfg.firstS = 10
		cfg.twoSolvers = true
	}
	solveAll(all, cfg)

	known := loadKnownFindings(filepath.Join(vd, "known_findings.txt"))
	byBackend := map[string]int{}
	var solverTime float64
	nObl, nDis, nCan, nCanSat := 0, 0, 0, 0
	violations := 0
	var samples []interface{}
	canByProc := map[string][2]int{}
	var failed []*Obligation
	knownSeen := []string{}
	unreached := []string{}
	for _, o := range all {
		solverTime += o.TimeS
		if o.ExpectSat {
			nCan++
			c := canByProc[o.Proc]
			c[1]++
			if o.Status == "sat" {
				nCanSat++
				c[0]++
			} else {
				unreached = append(unreached, o.Name+" ("+o.Status+")")
			}
			canByProc[o.Proc] = c
			continue
		}
		nObl++
		if o.Status == "unsat" {
			nDis++
			byBackend[o.Solver]++
			if len(samples) < 12 && (nObl%7 == 1) {
				samples = append(samples, map[string]interface{}{"obligation": o.Name, "smt_bytes": o.SMTSize, "time_s": round3(o.TimeS), "backend": o.Solver})
			}
			continue
		}
		failed = append(failed, o)
	}
	replayDir := filepath.Join(vd, "replays", *prop)
	for _, o := range failed {
		isKnown := false
		for _, kf := range known {
			if kf.Property == *prop && kf.Obligation == o.Name {
				fmt.Printf("KNOWN-FINDING: property=%s %s (%s)\n", *prop, kf.Text, o.Name)
				knownSeen = append(knownSeen, o.Name)
				isKnown = true
			}
		}
		if isKnown {
			nObl-- // not part of the proof claim: reported separately as a known finding
			continue
		}
		violations++
		os.MkdirAll(replayDir, 0o755)
		path := filepath.Join(replayDir, sanitize(strings.ReplaceAll(o.Name, "/", "__"))+".json")
		rep := replayObligation(e, o, scratch)
		rep["obligation"] = o.Name
		rep["property"] = *prop
		rep["solver_status"] = o.Status
		rep["solver"] = o.Solver
		rep["solver_output"] = truncate(o.Output, 20000)
		data, _ := json.MarshalIndent(rep, "", " ")
		os.WriteFile(path, data, 0o644)
		suffix := ""
		if rep["confirmed"] != true {
			suffix = " no-failing-input-found"
		}
		fmt.Printf("VIOLATION property=%s replay=%s%s\n", *prop, path, suffix)
		fmt.Printf("  failed obligation: %s (%s by %s)\n", o.Name, o.Status, o.Solver)
	}
	// vacuity: every procedure needs at least one reachable return
	for proc, c := range canByProc {
		if c[0] == 0 {
			fmt.Printf("ENGINE-ERROR: vacuous assumptions in %s: no canary refuted (%d tried)\n", proc, c[1])
			undecided = append(undecided, proc+": vacuous (no reachable exit)")
		}
	}
	for _, u := range undecided {
		// a function under contract that can no longer be bound to its contract (or whose proof is
		// vacuous): every obligation it had on the unchanged tree is now undischarged. Fail closed;
		// the replay harness of that function searches for a failing input.
		fmt.Printf("UNDECIDED property=%s %s\n", *prop, u)
		procName := strings.SplitN(u, ":", 2)[0]
		o := &Obligation{Proc: procName, Name: procName + "/contract-binds", Props: []string{*prop}, Status: "unknown", Output: u, Meta: map[string]string{}}
		os.MkdirAll(replayDir, 0o755)
		path := filepath.Join(replayDir, sanitize(strings.ReplaceAll(o.Name, "/", "__"))+".json")
		rep := replayObligation(e, o, scratch)
		rep["obligation"] = o.Name
		rep["property"] = *prop
		rep["solver_status"] = "undecided"
		rep["solver_output"] = u
		data, _ := json.MarshalIndent(rep, "", " ")
		os.WriteFile(path, data, 0o644)
		suffix := ""
		if rep["confirmed"] != true {
			suffix = " no-failing-input-found"
		}
		violations++
		fmt.Printf("VIOLATION property=%s replay=%s%s\n", *prop, path, suffix)
		fmt.Printf("  undischarged: the contract of %s no longer binds to the code (%s)\n", procName, strings.TrimSpace(strings.SplitN(u, ":", 2)[1]))
	}
	var fnames []string
	ssaInstrs := 0
	for _, r := range results {
		if r.Err == "" {
			fnames = append(fnames, r.Key)
			ssaInstrs += r.SSAInstrs
		}
	}
	fnames = append(fnames, asmInfo.functions...)
	var assumptions []string
	for a := range assum {
		assumptions = append(assumptions, a)
	}
	for _, a := range asmInfo.assumptions {
		assumptions = append(assumptions, a)
	}
	assumptions = append(assumptions, baseAssumptions...)
	sort.Strings(assumptions)
	level := "proof"
	cov := map[string]interface{}{
		"obligations":              nObl,
		"discharged":               nDis,
		"checker_cmd":              fmt.Sprintf("bin/lz4verif check --property %s --tier %s", *prop, *tier),
		"trusted_base":             trustedBase,
		"functions_under_contract": fnames,
		"ssa_instructions":         ssaInstrs,
		"asm_instructions":         asmInfo.instructions,
		"by_backend":               byBackend,
		"solver_time_s":            round3(solverTime),
		"canaries":                 nCan,
		"canaries_refuted":         nCanSat,
		"samples":                  samples,
		"undecided":                undecided,
		"known_findings_seen":      knownSeen,
		"canaries_not_refuted":     unreached, // returns / back edges / branches no state enters under the contracts: dead code (concurrent branches under num == 1, error paths of calls that cannot fail) -- each one is to be explainable
		"known_finding_obligations": len(knownSeen),
		"integer_semantics":        "Go machine integers: exact wrap-around in SMT Int (theory int) or bit-vectors of the Go width (theory bv); never mathematical",
	}
	if len(undecided) > 0 || nObl == 0 {
		level = "other"
		cov["explanation"] = "some functions could not be bound to their contracts or no obligation was generated; see undecided"
	}
	if isBounded {
		// A part of the property is under contract (proved above), the rest is covered by the bounded
		// stand-in: both run, one evidence file (level exploration, the proved part as a sub-record).
		fmt.Printf("property %s (proved part): %d functions, %d obligations, %d discharged, %d violations, %d undecided, canaries %d/%d, %.1fs\n",
			*prop, len(fnames), nObl, nDis, violations, len(undecided), nCanSat, nCan, time.Since(t0).Seconds())
		if nObl == 0 {
			fmt.Println("ENGINE-ERROR: no obligations generated")
			return 2
		}
		cov["assumptions"] = assumptions
		cov["violations"] = violations
		hybridProof = cov
		rcB := cmdBounded([]string{"--property", *prop, "--tier", *tier})
		if violations > 0 || rcB == 1 {
			return 1
		}
		return rcB
	}
	ev := evidence{PropertyID: *prop, Tier: *tier, Seed: seed, Level: level, Coverage: cov, Assumptions: assumptions, WallS: round3(time.Since(t0).Seconds()), Violations: violations}
	os.MkdirAll(filepath.Join(vd, "evidence"), 0o755)
	data, _ := json.MarshalIndent(ev, "", " ")
	os.WriteFile(filepath.Join(vd, "evidence", *prop+".json"), data, 0o644)
	fmt.Printf("property %s: %d functions, %d obligations, %d discharged, %d violations, %d undecided, canaries %d/%d, %.1fs\n",
		*prop, len(fnames), nObl, nDis, violations, len(undecided), nCanSat, nCan, time.Since(t0).Seconds())
	if nObl == 0 {
		fmt.Println("ENGINE-ERROR: no obligations generated")
		return 2
	}
	if violations > 0 {
		return 1
	}
	return 0
}

// hybridProof: the coverage record of the proved part of a property whose rest is a bounded stand-in.
var hybridProof map[string]interface{}

func round3(f float64) float64 { return float64(int(f*1000+0.5)) / 1000 }

func truncate(s string, n int) string {
	if len(s) > n {
		return s[:n] + "...(truncated)"
	}
	return s
}

var trustedBase = []string{
	"go/types + go/ssa (golang.org/x/tools v0.29.0) lowering of the working tree to naive-form SSA",
	"lz4verif's semantics of SSA instructions, slices, heap and panics (exercised by the must-fail corpus, not proved)",
	"SMT solvers z3 5.1.0, z3 4.8.12, cvc5 1.0.x",
	"gc compiler / assembler / go tool objdump for the amd64 decoder",
}

var baseAssumptions = []string{
	"callers outside the repository pass slices that do not alias library-internal arrays",
	"memory model: allocations are disjoint; object ids < 2^16, heap addresses < 2^47, arrays embedded in objects from 2^52 (modelling device)",
}

type asmInfoT struct {
	functions    []string
	assumptions  []string
	instructions int
}
